"""pyvc engine: symbolic execution of real Python function bodies against sidecar contracts.

Produces named proof obligations (z3 terms).  Loops are cut by the sidecar's invariants; calls to functions
with a contract use only the contract; helpers declared `inline` are executed at the call site.
"""
from __future__ import annotations

import ast
import enum
import hashlib
import importlib
import os
import textwrap

import z3

from .calls import MUTATING, CallMixin, VDictView, VEmptySet, VJoined
from .expr import (AND, NOT, OR, ExprMixin, VEnumerate, VEnumSym, VVec, VZip, conc_bool, is_bool, is_int, is_str, I,
                   _free_consts)
from .state import Obligation, Outcome, State
from .values import (Unsupported, VConc, VDict, VFilter, VFunc, VHList, VList, VOpt, VRange, VRec, VRef, VSet, VTuple, fresh,
                     is_conc, is_leaf, ite_tree, key_sorts, key_terms, leaves, parse_shape, sel, shape_of, sto, tmap,
                     to_z3, tzip, uid)


class ContractError(Exception):
    """the sidecar contract cannot be bound to the code (not a property violation)"""


class Engine(ExprMixin, CallMixin):
    def __init__(self, module_name, sidecar, src_root="/repo/src"):
        # one Engine = one verification target (report.py, tools/*): fresh names restart here, before anything is created, so
        # the names in a target's obligations (and the solvers' heuristics with them) do not depend on what ran before
        from .values import reset_uids
        reset_uids()
        self.module_name = module_name
        self.src_path = os.path.join(src_root, *module_name.split(".")) + ".py"
        self.source = open(self.src_path).read()
        self.tree = ast.parse(self.source)
        self.realmod = importlib.import_module(module_name)
        self.sidecar = sidecar
        self.funcs, self.decorators = {}, {}
        self.toplevel_funcs = set()
        for n in self.tree.body:
            if isinstance(n, ast.FunctionDef):
                self.funcs[n.name] = n
                self.toplevel_funcs.add(n.name)
            elif isinstance(n, ast.ClassDef):
                for m in n.body:
                    if isinstance(m, ast.FunctionDef):
                        if any(isinstance(d, ast.Attribute) and d.attr in ("setter", "deleter") for d in m.decorator_list):
                            # `@prop.setter def prop(self, value)`: the write accessor of a property.  Reading obj.prop still runs
                            # the getter, so the name stays bound to the getter's def (funcs is consulted for reads and calls only)
                            continue
                        self.funcs[f"{n.name}.{m.name}"] = m
        self.contracts = dict(getattr(sidecar, "CONTRACTS", {}))
        self.inline = set(getattr(sidecar, "INLINE", ()))
        self.classes = dict(getattr(sidecar, "CLASSES", {}))
        from . import values as _values
        _values.REC_TABLE.clear()
        _values.REC_TABLE.update({k: v for k, v in self.classes.items() if v.get("kind") == "record"})
        self.externals = dict(getattr(sidecar, "EXTERNALS", {}))
        self.pure_externals = set(getattr(sidecar, "PURE_EXTERNALS", ()))
        self.lemmas = dict(getattr(sidecar, "LEMMAS", {}))
        self.ufuns = {}
        self.global_facts = []
        _values.PACK["enabled"] = bool(getattr(sidecar, "PACK_KEYS", False))
        _values.PACK["sink"] = self.global_facts if _values.PACK["enabled"] else None
        _values.NESTED_ORDER["enabled"] = bool(getattr(sidecar, "NESTED_DICT_ORDER", False))
        self.prune = bool(getattr(sidecar, "PRUNE_BRANCHES", False))
        self.spec_env = {}
        self.spec_names = set()
        self._load_spec_defs()
        self.obls = []
        self.spec = False
        self.guard, self.mayraise = [], []
        self.depth = 0
        self.cur_line0 = 0
        self.used_externals, self.called_contracts = set(), set()
        self.assumed = []  # textual record of assumptions introduced (axioms, externals)
        self.cur_contract = None
        self.reach = []
        self.cur_ghost, self.cur_loops, self.cur_locals = [], {}, {}
        self.defaultdict_names = set()
        self.used_lemmas = set()
        self.trivial = 0
        self.max_paths = 256
        self.heap0 = {}
        self.loop_ordinal, self.enclosing_loop = {}, {}

    # ------------------------------------------------------------------ sidecar spec functions
    def _load_spec_defs(self):
        path = getattr(self.sidecar, "__file_spec__", self.sidecar.__file__)
        # __file_spec__ may be a list of files (a sidecar that reuses another sidecar's vocabulary and adds its own):
        # the @spec functions of all of them are loaded, later files overriding earlier ones
        paths = list(path) if isinstance(path, (list, tuple)) else [path]
        body = [n for p_ in paths for n in ast.parse(open(p_).read()).body]
        for n in body:
            if isinstance(n, ast.FunctionDef) and any(isinstance(d, ast.Name) and d.id == "spec" for d in n.decorator_list):
                self.funcs["spec:" + n.name] = n
                self.inline.add("spec:" + n.name)
                self.spec_env[n.name] = VFunc("function", "spec:" + n.name, n.name)
        for name, (args, res) in getattr(self.sidecar, "UFUNS", {}).items():
            sorts = [self.sort_of(a) for a in args] + [self.sort_of(res)]
            f = z3.Function(name, *sorts)
            self.ufuns[name] = f
            self.spec_env[name] = VFunc("pyfunc", (lambda f: lambda *a: f(*[to_z3(x.ident if isinstance(x, VRef) else x) for x in a]))(f), name)
        for name, key in getattr(self.sidecar, "SPEC_EXTERNALS", {}).items():
            self.spec_env[name] = VFunc("pyfunc", (lambda k: lambda *a: self.externals[k](self, list(a), {}, None, None))(key), name)
        for name, val in getattr(self.sidecar, "SPEC_CONSTS", {}).items():
            self.spec_env[name] = self.from_py(val)

    def sort_of(self, s):
        return {"int": z3.IntSort(), "bool": z3.BoolSort(), "real": z3.RealSort(), "str": z3.StringSort()}[s]

    def shape(self, s):
        return parse_shape(s)

    # ------------------------------------------------------------------ obligations
    def emit(self, name, st, goal, node=None, kind="safety", guard=()):
        goal = to_z3(goal) if not isinstance(goal, bool) else z3.BoolVal(goal)
        if z3.is_true(goal):
            self.trivial += 1
            return
        hyps = list(st.pc) + [to_z3(g) for g in guard]
        # frontier ordering facts (frontier_moves) are hypotheses of every obligation of the path, kept outside st.pc so that
        # positional proof cuts (`keep n`, `assert_last n`) neither lose them nor have their counts shifted by them
        hyps = [f for f in st.ghost.get("__alloc__", ()) if not any(f.eq(h) for h in hyps)] + hyps
        self.obls.append(Obligation(f"{self.cur_name}#{name}", self.relevant_global_facts(hyps + [goal]) + hyps, goal,
                                    line=getattr(node, "lineno", None), kind=kind))

    def _memo_names(self, f):
        """names of the memoised auxiliary variables (inv!k of real_div, norm!k of the norm external) occurring in f"""
        cache = self.__dict__.setdefault("_memo_name_cache", {})
        k = f.get_id()
        if k not in cache:
            cache[k] = (f, frozenset(str(c) for c in _free_consts(f) if str(c).startswith(("inv!", "norm!"))))  # f kept alive: ids are reused
        return cache[k][1]

    def relevant_global_facts(self, formulas):
        """global facts define memoised auxiliary variables (x/y as x*inv with y != 0 -> inv*y == 1; norms).  A fact all of
        whose auxiliary variables occur nowhere else in the obligation is dropped: leaving out a hypothesis is always sound,
        and such a fact cannot contribute (its auxiliary variable can always be chosen to satisfy it)."""
        used = set()
        for f in formulas:
            used |= self._memo_names(f)
        pending = [(f, self._memo_names(f)) for f in self.global_facts]
        keep, changed = [], True
        while changed:
            changed = False
            rest = []
            for f, ns in pending:
                if not ns or ns & used:
                    keep.append(f)
                    if ns - used:
                        used |= ns
                        changed = True
                else:
                    rest.append((f, ns))
            pending = rest
        order = {f.get_id(): k for k, f in enumerate(self.global_facts)}
        return sorted(keep, key=lambda f: order[f.get_id()])

    # ------------------------------------------------------------------ spec evaluation
    def spec_eval(self, text, st, contract=None):
        node = ast.parse(textwrap.dedent(text).strip(), mode="eval").body if isinstance(text, str) else text
        saved = (self.spec, self.guard, self.mayraise)
        self.spec, self.guard, self.mayraise = True, [], []
        try:
            v = self.ev(node, st)
            return self.truth(v) if not is_bool(v) else v
        except Unsupported as e:
            raise ContractError(f"cannot evaluate spec clause {text!r}: {e}")
        finally:
            self.spec, self.guard, self.mayraise = saved

    def spec_value(self, text, st):
        node = ast.parse(textwrap.dedent(text).strip(), mode="eval").body
        saved = (self.spec, self.guard, self.mayraise)
        self.spec, self.guard, self.mayraise = True, [], []
        try:
            return self.ev(node, st)
        finally:
            self.spec, self.guard, self.mayraise = saved

    def _quant(self, node, st, is_all):
        lam = node.args[0]
        if not isinstance(lam, ast.Lambda):
            raise ContractError("forall/exists need a lambda")
        sorts = {}
        for k in node.keywords:
            if k.arg == "sorts":
                sorts = ast.literal_eval(k.value)
        names = [a.arg for a in lam.args.args]
        # sorts={"x": "Cls"} with Cls a heap class of the sidecar: x ranges over all references of that class
        # bound-variable names: globally unique by default; a sidecar may opt in (STABLE_BINDERS = True) to names that depend
        # only on the lambda parameter and the quantifier nesting depth, so that the same clause text evaluated twice over the
        # same values yields the identical term (a callee postcondition re-exported by its caller is then discharged by
        # syntactic identity).  "!b<depth>" cannot clash with a program variable, and an enclosing binder has a smaller depth.
        depth = getattr(self, "_qdepth", 0)
        stable = bool(getattr(self.sidecar, "STABLE_BINDERS", False))
        bname = (lambda n: f"{n}!b{depth}") if stable else uid
        vs = [z3.Const(bname(n), I if sorts.get(n) in self.classes or sorts.get(n) == "char" else self.sort_of(sorts.get(n, "int"))) for n in names]
        self._qdepth = depth + 1
        qbound = getattr(self, "_qbound", ())
        self._qbound = qbound + tuple(names)  # names bound by the enclosing quantifiers (old() keeps them, see spec_old)
        try:
            return self._quant_body(node, st, is_all, lam, sorts, names, vs)
        finally:
            self._qdepth = depth
            self._qbound = qbound

    def _quant_body(self, node, st, is_all, lam, sorts, names, vs):
        st2 = st.copy()
        for n, v in zip(names, vs):
            st2.env[n] = VRef(sorts[n], v) if sorts.get(n) in self.classes else v
            if sorts.get(n) == "char":  # x ranges over all characters (code points)
                from .values import VChar
                st2.env[n] = VChar(v)
        body = to_z3(self.truth(self.ev(lam.body, st2)))
        pats = []
        for k in node.keywords:
            if k.arg == "pats":
                for ptxt in ast.literal_eval(k.value):
                    terms = [to_z3(self.ev(ast.parse(t, mode="eval").body, st2)) for t in (ptxt if isinstance(ptxt, (list, tuple)) else [ptxt])]
                    if any(_has_ite(t_) for t_ in terms):
                        continue  # z3 refuses `if` inside patterns (with a warning on stderr): this hint does not apply to this instance
                    pats.append(z3.MultiPattern(*terms) if len(terms) > 1 else terms[0])
        if pats:
            try:
                return z3.ForAll(vs, body, patterns=pats) if is_all else z3.Exists(vs, body, patterns=pats)
            except z3.Z3Exception:
                pass  # not a legal pattern for this instance of the clause (e.g. an ite inside): patterns are only hints
        return z3.ForAll(vs, body) if is_all else z3.Exists(vs, body)

    def spec_forall(self, node, st):
        return self._quant(node, st, True)

    def spec_exists(self, node, st):
        return self._quant(node, st, False)

    def spec_implies(self, node, st):
        a = to_z3(self.truth(self.ev(node.args[0], st)))
        b = to_z3(self.truth(self.ev(node.args[1], st)))
        return z3.Implies(a, b)

    def spec_iff(self, node, st):
        a = to_z3(self.truth(self.ev(node.args[0], st)))
        b = to_z3(self.truth(self.ev(node.args[1], st)))
        return a == b

    def spec_ite(self, node, st):
        c = self.truth(self.ev(node.args[0], st))
        return self.merge(c, self.ev(node.args[1], st), self.ev(node.args[2], st))

    def spec_old(self, node, st):
        if st.old is None:
            raise ContractError("old() outside a two-state clause")
        o = st.old.copy()
        # parameters keep their entry values; locals are not visible in old()
        for n_ in getattr(self, "_qbound", ()):
            # a variable bound by an enclosing quantifier of the clause denotes the same value inside old(): old(e.f) with e
            # bound reads field f of that object in the entry heap (the usual two-state meaning)
            if n_ in st.env:
                o.env[n_] = st.env[n_]
        for n_, v_ in st.ghost.items():
            # a ghost name introduced after entry (a `let`, a ghost result) is a value, not a heap location: inside old() it
            # denotes that value, and only the heap reads under old() go to the entry heap (names already bound at entry keep
            # their entry value, as before)
            if n_ not in o.ghost and n_ not in o.env:
                o.ghost[n_] = v_
        return self.ev(node.args[0], o)

    def spec_allocated(self, node, st):
        """allocated(r): r was allocated before the call (two-state) / is allocated now (one-state)"""
        r = self.ev(node.args[0], st)
        base = st.old if st.old is not None else st
        return z3.And(to_z3(r.ident) >= 1, to_z3(r.ident) < to_z3(base.alloc))

    def spec_fresh(self, node, st):
        r = self.ev(node.args[0], st)
        return z3.And(to_z3(r.ident) >= to_z3(st.old.alloc), to_z3(r.ident) < to_z3(st.alloc))

    def spec_ref(self, node, st):
        """ref(Cls, i): the reference of class Cls with identity i (lets a clause quantify over references)"""
        return VRef(node.args[0].id, to_z3(self.ev(node.args[1], st)))

    def spec_rec(self, node, st):
        """rec(Cls, f1=v1, ...): the record value of class Cls with the given fields (an Int given for a reference field is
        taken as the identity); lets a clause quantify over record values through their scalar components"""
        cls = node.args[0].id
        info = self.classes[cls]
        given = {k.arg: self.ev(k.value, st) for k in node.keywords}
        if set(given) != set(info["fields"]):
            raise ContractError(f"rec({cls}, ...) must give exactly the fields {sorted(info['fields'])}")
        out = {}
        for f, shp in info["fields"].items():
            shp = self.shape(shp)
            v = given[f]
            if shp[0] == "ref" and not isinstance(v, VRef):
                v = VRef(shp[1], to_z3(v))
            out[f] = self.coerce(v, shp)
        return VRec(cls, out)

    def spec_opt(self, node, st):
        """opt(isnone, v): the Optional value that is None when `isnone` and v otherwise"""
        return VOpt(to_z3(self.truth(self.ev(node.args[0], st))), self.ev(node.args[1], st))

    def spec_ident(self, node, st):
        """ident(r): the identity (Int) of a reference"""
        r = self.ev(node.args[0], st)
        if not isinstance(r, VRef):
            raise ContractError("ident() of a non-reference")
        return to_z3(r.ident)

    def spec_last_filter_index(self, node, st):
        """last_filter_index(): the strictly increasing index map of the most recent list(filter(..)) / filtered
        comprehension (element j of the result is element idx[j] of the filtered list), as a list of ints"""
        lf = getattr(self, "last_filter", None)
        if lf is None or lf["binders"]:
            raise ContractError("no top-level filter has been evaluated")
        return VList(lf["len"], lf["idx"], ("int",))

    def spec_vec(self, node, st):
        return VVec([self.ev(a, st) for a in node.args])

    def spec_matches(self, node, st):
        """matches(s, "regex"): full match against the regular language (sidecar regex subset)"""
        from .regex import to_z3_re
        s_ = self.ev(node.args[0], st)
        pat = ast.literal_eval(node.args[1]) if not isinstance(node.args[1], ast.Name) else getattr(self.sidecar, node.args[1].id)
        return z3.InRe(to_z3(s_), to_z3_re(pat))

    def spec_empty(self, node, st):
        """empty('list[int]'): the empty container of the given shape"""
        shp = self.shape(ast.literal_eval(node.args[0]))
        if shp[0] == "dict":
            return self.empty_of(shp, VEmptyDict())
        return self.default_of(shp)

    def spec_dstore(self, node, st):
        """dstore(D, k, v): the (ghost) map D with D[k] = v; ghost maps carry no insertion order"""
        D, k, v = self.ev(node.args[0], st), self.ev(node.args[1], st), self.ev(node.args[2], st)
        ks = key_terms(self.coerce(k, D.kshape))
        from .calls import _store_multi
        return VDict(D.kshape, D.vshape, _store_multi(D.dom, ks, z3.BoolVal(True)), sto(D.vals, ks, self.coerce(v, D.vshape)), None, D.default)

    def spec_frontier(self, node, st):
        """frontier(): the current allocation frontier (identities >= it belong to objects not created yet)"""
        return to_z3(st.alloc)

    def spec_setof(self, node, st):
        """setof(lambda x: P(x)): the set of integers {x | P(x)} (set comprehension at spec level)"""
        lam = node.args[0]
        # the bound variable's name depends only on the parameter name: the same clause text over the same values is then the
        # identical lambda term wherever it is evaluated (no extensionality reasoning needed).  A nested setof over the same
        # parameter name binds its own occurrences first (innermost lambda is built first), as Python's shadowing does.
        x = z3.Int(f"{lam.args.args[0].arg}!set")
        st2 = st.copy()
        st2.env[lam.args.args[0].arg] = x
        return VSet(("int",), z3.Lambda([x], to_z3(self.truth(self.ev(lam.body, st2)))))

    def spec_card(self, node, st):
        """card(S): the number of elements of the (finite) set of integers S - what len(S) returns (see CallMixin.set_card_fn)"""
        return self.set_card_fn(self.ev(node.args[0], st))

    def spec_fill(self, node, st):
        """fill(n, v): the list of n copies of the integer v (ghost arrays)"""
        n, v = self.ev(node.args[0], st), self.ev(node.args[1], st)
        return VList(n, z3.K(z3.IntSort(), to_z3(v)), ("int",))

    def spec_snoc(self, node, st):
        """snoc(L, x): the list L with x appended (spec-level L + [x] as an array store)"""
        L, x = self.ev(node.args[0], st), self.ev(node.args[1], st)
        if L.elems is None:
            return self.list_literal([x])
        return VList(L.length + 1 if isinstance(L.length, int) else to_z3(L.length) + 1,
                     sto(L.elems, [to_z3(L.length)], self.coerce(x, L.eshape)), L.eshape)

    def spec_filter_index(self, node, st):
        """filter_index(b1, ..): ghost view of the filtering list built last (list(filter(..)) / [.. for .. if ..]): the
        strictly increasing list of source positions that were kept; arguments = values of the enclosing comprehension
        variables (none at statement level).  Only names the unknown already constrained by materialize_filter."""
        lf = getattr(self, "last_filter", None)
        if lf is None:
            raise ContractError("filter_index(): no filtering list was built")
        args = [to_z3(self.ev(a, st)) for a in node.args]
        if len(args) != len(lf["binders"]):
            raise ContractError(f"filter_index() needs {len(lf['binders'])} binder value(s)")
        subs = list(zip(lf["binders"], args))
        ln = z3.substitute(lf["len"], *subs) if subs else lf["len"]
        ix = z3.substitute(lf["idx"], *subs) if subs else lf["idx"]
        if node.func.id == "filter_pos":  # the inverse map: source position -> position in the filtered list (where kept)
            return VList(z3.substitute(lf["n"], *subs) if subs else lf["n"], z3.substitute(lf["pos"], *subs) if subs else lf["pos"], ("int",))
        return VList(ln, ix, ("int",))

    spec_filter_pos = spec_filter_index

    def spec_dictcomp_pos(self, node, st):
        """dictcomp_pos(k): ghost view of the dict comprehension evaluated last: the source position whose value the key k holds"""
        dc = getattr(self, "last_dictcomp", None)
        if dc is None:
            raise ContractError("dictcomp_pos(): no dict comprehension was evaluated")
        k = self.ev(node.args[0], st)
        if isinstance(k, VOpt) and dc["kshape"][0] != "opt":
            k = k.val
        return sel(dc["last"], *key_terms(k))

    def spec_upd(self, node, st):
        """upd(L, p, x): the list L with position p replaced by x (spec-level functional update)"""
        L, p_, x = self.ev(node.args[0], st), self.ev(node.args[1], st), self.ev(node.args[2], st)
        return VList(L.length, sto(L.elems, [to_z3(p_)], self.coerce(x, L.eshape)), L.eshape)

    def spec_first_index(self, node, st):
        """first_index(L, x): the least position of x in L when x occurs in L (otherwise an arbitrary integer).  A ghost
        choice: introduces a fresh p constrained by  (exists q. L[q] == x) -> 0 <= p < len(L), L[p] == x, nothing before p
        (the least-number principle - conservative, no program fact is assumed)."""
        L, x = self.ev(node.args[0], st), self.ev(node.args[1], st)
        p_, q = z3.Int(uid("first")), z3.Int(uid("q"))
        n = to_z3(L.length)
        at = lambda t: to_z3(self.eq(sel(L.elems, t), x))
        st.assume(z3.Implies(z3.Exists([q], z3.And(q >= 0, q < n, at(q))),
                             z3.And(p_ >= 0, p_ < n, at(p_), z3.ForAll([q], z3.Implies(z3.And(q >= 0, q < p_), z3.Not(at(q)))))))
        return p_

    def spec_last_enum(self, node, st):
        """last_enum(): ghost view of the duplicate-free enumeration chosen for the set iterated / comprehended last"""
        e = getattr(self, "last_enum", None)
        if e is None:
            raise ContractError("last_enum(): no set was enumerated")
        return e

    def spec_some(self, node, st):
        """some(x): the payload of an Optional value (meaningful where x is not None)"""
        v = self.ev(node.args[0], st)
        return v.val if isinstance(v, VOpt) else v

    def spec_is_none(self, node, st):
        v = self.ev(node.args[0], st)
        return self.eq(v, None)

    def spec_char(self, node, st):
        """char(s, i): the one-character substring"""
        s, i = self.ev(node.args[0], st), self.ev(node.args[1], st)
        return z3.SubString(to_z3(s), to_z3(i), 1)

    # ------------------------------------------------------------------ heap
    def heap_tree(self, st, cls, field):
        key = (cls, field)
        if key not in st.heap:
            shp = self.field_shape(cls, field)
            st.heap[key] = fresh(shp, f"H0.{cls}.{field}", (I,))
            self.heap0[key] = st.heap[key]
        return st.heap[key]

    def field_shape(self, cls, field):
        info = self.classes.get(cls)
        if info is None or field not in info["fields"]:
            raise Unsupported(f"class {cls} has no declared field {field}")
        return self.shape(info["fields"][field])

    def heap_read(self, st, ref, field):
        return sel(self.heap_tree(st, ref.cls, field), to_z3(ref.ident))

    def with_touches(self, k, lc, st, run):
        """run the loop body with the loop's declared write frame active (see havoc): every heap write is checked against it"""
        t = lc.get("touches")
        al = lc.get("allocates")
        if not t and al is None:
            return run()
        stack = self.__dict__.setdefault("touch_stack", [])
        depth0 = len(stack)
        if t:
            stack.append({"k": k, "names": {x.split(".")[1] for x in t},
                          "cells": {x: [to_z3(self.spec_value(e_, st).ident) for e_ in es] for x, es in t.items()}})
        if al is not None:
            # `allocates` frame (see havoc_allocates): the named fields are written only on objects created by the loop
            stack.append({"k": k, "names": {x.split(".")[1] for x in al}, "keys": set(al), "fresh_from": self._alloc_entry[k]})
        try:
            return run()
        finally:
            del stack[depth0:]

    def havoc_allocates(self, k, lc, st, entry):
        """loop contract key `allocates: ["Cls.f", ..]` - the loop body creates objects.  At the loop head the allocation
        frontier is an unknown not below the frontier at loop entry, and every named field is an unknown array that agrees with
        its value at loop entry on every object that existed then; the body may write a named field only on objects created
        by the loop (obligation at every write, heap_write).  `entry` = the state at loop entry."""
        al = lc.get("allocates")
        if al is None:
            # no declaration: the body may still allocate (constructors, callees).  The head state must cover every
            # iteration, so the allocation frontier there is an unknown not below the frontier at loop entry - otherwise
            # objects created in different iterations (and after the loop) would share one identity.  Cells at or above the
            # entry frontier are unconstrained in every field array, which over-approximates whatever earlier iterations
            # wrote there.
            a = z3.Int(uid(f"alloc@loop{k}"))
            self.frontier_moves(st, entry.alloc, a)
            st.alloc = a
            return
        a0 = to_z3(entry.alloc)
        self.__dict__.setdefault("_alloc_entry", {})[k] = a0
        a = z3.Int(uid(f"alloc@loop{k}"))
        st.assume(a >= a0)
        st.alloc = a
        r = z3.Int(uid("r"))
        for key_ in al:
            cls, f = key_.split(".")
            old = self.heap_tree(entry, cls, f)
            new = fresh(self.field_shape(cls, f), uid(f"H.{cls}.{f}@loop{k}"), (I,))
            st.heap[(cls, f)] = new
            self.assume_heap_wf(st, cls, f)
            same = AND(*[z3.Select(x, r) == z3.Select(y, r) for x, y in zip(leaves(new), leaves(old))])
            st.assume(z3.ForAll([r], z3.Implies(r < a0, same)))

    def frontier_moves(self, st, old, new):
        """the allocation frontier only moves forward: new >= old.  The fact is also remembered in the state so that proof
        cuts (cut / keep / assert_last), which drop hypotheses to keep solver contexts small, do not lose it"""
        f = to_z3(new) >= to_z3(old)
        st.ghost["__alloc__"] = tuple(st.ghost.get("__alloc__", ())) + (f,)

    def heap_write(self, st, ref, field, val):
        for fr in self.__dict__.get("touch_stack", []):
            if field in fr["names"] and "fresh_from" in fr:
                if f"{ref.cls}.{field}" in fr["keys"]:
                    self.emit(f"loop{fr['k']}.writes_only_new_objects[{ref.cls}.{field}]", st, to_z3(ref.ident) >= fr["fresh_from"],
                              None, kind="frame", guard=list(self.guard))
                continue
            if field in fr["names"]:
                cells = fr["cells"].get(f"{ref.cls}.{field}")
                if cells is None:
                    raise Unsupported(f"loop #{fr['k']} writes {ref.cls}.{field}, which its `touches` clause does not name")
                self.emit(f"loop{fr['k']}.writes_only_declared[{ref.cls}.{field}]", st, OR(*[to_z3(ref.ident) == c_ for c_ in cells]),
                          None, kind="frame", guard=list(self.guard))
        tree = self.heap_tree(st, ref.cls, field)
        shp = self.field_shape(ref.cls, field)
        val = self.coerce(val, shp)
        if isinstance(val, VList) and val.elems is None:
            val = self.default_of(shp)
        st.heap[(ref.cls, field)] = sto(tree, [to_z3(ref.ident)], val)

    def havoc_heap(self, st, spec):
        cls, field = spec.split(".")
        for fr in self.__dict__.get("touch_stack", []):
            if field in fr["names"]:
                raise Unsupported(f"a callee that may modify every {cls}.{field} is called inside loop #{fr['k']}, whose `touches` clause restricts that field")
        self.heap_tree(st, cls, field)
        st.heap[(cls, field)] = fresh(self.field_shape(cls, field), uid(f"H.{cls}.{field}"), (I,))
        self.assume_heap_wf(st, cls, field)

    def assume_heap_wf(self, st, cls, field):
        """a list held in a field has a non-negative length, whatever object holds it (Python lists always do)"""
        shp = self.field_shape(cls, field)
        if shp[0] == "list":
            tree = st.heap[(cls, field)]
            r = z3.Int(uid("r"))
            st.assume(z3.ForAll([r], z3.Select(to_z3(tree.length), r) >= 0))

    def attr_of(self, recv, name, node, st):
        if isinstance(recv, VRef):
            qual = f"{recv.cls}.{name}"
            if qual in self.funcs and self.resolve(qual):
                if self.is_property(qual):
                    return self.call_named(qual, [recv], {}, node, st)
                return VFunc("method", (qual, recv), qual)
            info = self.classes.get(recv.cls, {})
            if name in info.get("fields", {}):
                return self.heap_read(st, recv, name)
            if qual not in self.funcs and self.resolve(qual) == "contract" and getattr(self.contracts[qual], "is_property", False) is True:
                # a (cached) property of a class defined in ANOTHER module, known here only through an (assumed) contract that
                # the sidecar marks `is_property = True`: reading the attribute is the call of the getter
                return self.call_named(qual, [recv], {}, node, st)
            if qual in self.funcs:
                raise Unsupported(f"{qual} has neither a contract nor an inline declaration")
            raise Unsupported(f"attribute {recv.cls}.{name} not declared")
        if isinstance(recv, VRec):
            if name in recv.fields:
                return recv.fields[name]
            qual = f"{recv.cls}.{name}"
            if qual in self.funcs and self.resolve(qual):
                if self.is_property(qual):
                    return self.call_named(qual, [recv], {}, node, st)
                return VFunc("method", (qual, recv), qual)
            pure = getattr(self.sidecar, "PURE_ATTRS", {}).get(qual)
            if pure is not None:
                # a (cached) property of an immutable record that the sidecar declares to be a pure function of the record's
                # fields (assumption listed there): an uninterpreted function of the record's value
                ls = leaves(recv)
                self.used_externals.add("attr:" + qual)
                return self.ufun("attr:" + qual, *([x.sort() for x in ls] + [self.sort_of(pure)]))(*ls)
            raise Unsupported(f"attribute {qual}")
        if isinstance(recv, VConc):
            obj = recv.obj
            if not hasattr(obj, name):
                self.may_raise(True, "AttributeError", node)
                return None
            return self.from_py(getattr(obj, name))
        if isinstance(recv, VFunc) and recv.kind == "class":
            qual = f"{recv.payload}.{name}"
            if qual in self.funcs:
                return VFunc("function", qual, qual)
            real = getattr(self.realmod, recv.payload)
            return self.from_py(getattr(real, name))
        if isinstance(recv, VEnumSym):
            if name == recv.by:
                return recv.key
            return VEnumAttr(self, recv, name)
        if isinstance(recv, VOpt):
            self.may_raise(recv.isnone, "AttributeError", node)
            return self.attr_of(recv.val, name, node, st)
        if recv is None:
            self.may_raise(True, "AttributeError", node)
            return None
        raise Unsupported(f"attribute .{name} of {type(recv).__name__} at line {getattr(node, 'lineno', '?')}")

    def is_property(self, qual):
        f = self.funcs[qual]
        for d in f.decorator_list:
            n = d.id if isinstance(d, ast.Name) else getattr(d, "attr", None)
            if n in ("property", "cached_property"):
                return True
        return False

    def _module_chain(self, node):
        """dotted name rooted at an imported module of the real module, e.g. numpy.linalg.norm -> key"""
        parts = []
        n = node
        while isinstance(n, ast.Attribute):
            parts.append(n.attr)
            n = n.value
        if not isinstance(n, ast.Name):
            return None
        import types
        root = getattr(self.realmod, n.id, None)
        if not isinstance(root, types.ModuleType):
            return None
        return root.__name__ + "." + ".".join(reversed(parts)), root, list(reversed(parts))

    def ev_Attribute(self, node, st):
        if isinstance(node.value, ast.Attribute) or isinstance(node.value, ast.Name):
            base = node
            while isinstance(base, ast.Attribute):
                base = base.value
            if isinstance(base, ast.Name) and base.id not in st.env and base.id not in st.ghost and base.id not in self.classes:
                mc = self._module_chain(node)
                if mc is not None:
                    key, root, parts = mc
                    if key in self.externals:
                        return VConc(_ExtHandle(key))
                    if key in getattr(self.sidecar, "MODULE_ATTRS", {}) and not self.spec:
                        # a module attribute the sidecar declares symbolic (its run-time value depends on the installation,
                        # e.g. pulp.LpSolverDefault): every read yields an unknown value of the declared shape (references
                        # in it: objects allocated earlier) - nothing about the real module's current value is used
                        val = self.fresh_value(self.shape(self.sidecar.MODULE_ATTRS[key]), uid("attr_" + key), st)
                        self.assume_wf(val.val if isinstance(val, VOpt) else val, st)
                        self.used_externals.add("attr:" + key)
                        return val
                    if key in getattr(self.sidecar, "MODULE_VALUES", {}):
                        # a module constant that has no value in the engine's domains (math.nan: floats are reals) and whose
                        # engine value the sidecar supplies - a modelling decision of the sidecar, listed there and recorded
                        # like an external (e.g. NaN used purely as a sentinel, as the None of an Optional real)
                        self.used_externals.add("attr:" + key)
                        return self.sidecar.MODULE_VALUES[key]
                    obj = root
                    for p_ in parts:
                        obj = getattr(obj, p_)
                    import types as _t
                    if isinstance(obj, _t.ModuleType):
                        return VConc(obj)
                    return self.from_py(obj)
        # module attribute chains resolved against the real modules (string.ascii_uppercase, pulp.LpMaximize ...)
        if isinstance(node.value, ast.Name) and node.value.id not in st.env and node.value.id not in self.classes \
                and node.value.id not in st.ghost:
            modobj = getattr(self.realmod, node.value.id, None)
            import types
            if isinstance(modobj, types.ModuleType):
                key = f"{modobj.__name__}.{node.attr}"
                if key in self.externals:
                    return VConc(_ExtHandle(key))
                return self.from_py(getattr(modobj, node.attr))
        recv = self.ev(node.value, st)
        return self.attr_of(recv, node.attr, node, st)

    # ------------------------------------------------------------------ assignment
    def bind_target(self, target, val, st, node):
        if isinstance(target, ast.Name):
            st.env[target.id] = val
            if target.id in st.narrowed:
                st.narrowed = st.narrowed - {target.id}
            return
        if isinstance(target, (ast.Tuple, ast.List)):
            items = self.unpack(val, len(target.elts), node, st)
            for t, v in zip(target.elts, items):
                if isinstance(t, ast.Name) and t.id in self.cur_locals:
                    # `row, used = [], set()` for locals declared as list / set OBJECTS: each display creates a new object
                    obj = self.new_container_object(self.shape(self.cur_locals[t.id]), v, node, st)
                    if obj is not None:
                        self.bind_target(t, obj, st, node)
                        continue
                if isinstance(t, ast.Name) and isinstance(v, VList) and v.elems is None and t.id in self.cur_locals:
                    # `xs, ys = [], []`: the untyped literal [] gets its shape from the contract's `locals` table
                    v = self.default_of(self.shape(self.cur_locals[t.id]))
                self.bind_target(t, v, st, node)
            return
        self.assign_to(target, val, st, node)

    def unpack(self, val, n, node, st):
        if isinstance(val, VTuple):
            if len(val.items) != n:
                self.may_raise(True, "ValueError", node)
                return [0] * n
            return val.items
        if isinstance(val, VRef) and self.resolve(f"{val.cls}.__getitem__"):
            # Sequence protocol: __getitem__(0..n-1) succeed and __getitem__(n) raises IndexError
            items = [self.call_method(val, "__getitem__", [k], {}, node, st) for k in range(n)]
            saved = self.mayraise
            self.mayraise = []
            self.call_method(val, "__getitem__", [n], {}, node, st)
            stops = OR(*[c for c, exc, _ in self.mayraise if exc == "IndexError"])
            self.mayraise = saved
            self.may_raise(NOT(stops), "ValueError", node)
            return items
        if isinstance(val, VList):
            self.may_raise(to_z3(val.length) != n, "ValueError", node)
            return [sel(val.elems, z3.IntVal(k)) for k in range(n)]
        raise Unsupported(f"unpacking of {type(val).__name__} at line {getattr(node, 'lineno', '?')}")

    def assign_to(self, target, val, st, node):
        if isinstance(target, ast.Name):
            st.env[target.id] = val
            if target.id in st.narrowed:
                st.narrowed = st.narrowed - {target.id}
            return
        if isinstance(target, ast.Attribute):
            recv = self.ev(target.value, st)
            if isinstance(recv, VRef):
                info = self.classes.get(recv.cls, {})
                if info.get("frozen"):
                    self.may_raise(True, "FrozenInstanceError", node)
                    return
                self.heap_write(st, recv, target.attr, val)
                return
            raise Unsupported(f"attribute store on {type(recv).__name__}")
        if isinstance(target, ast.Subscript):
            base = self.ev(target.value, st)
            idx = self.ev(target.slice, st)
            if isinstance(base, VRef):
                # item assignment on an object: its __setitem__ (list objects with identity, contracts, externals)
                self.call_method(base, "__setitem__", [idx, val], {}, node, st)
                return
            if isinstance(base, VList):
                i = self.norm_index(idx, base.length, node)
                new = VList(base.length, sto(base.elems, [to_z3(i)], self.coerce(val, base.eshape)), base.eshape)
            elif isinstance(base, VDict):
                idx = self.coerce(idx, base.kshape)
                ks = key_terms(idx)
                from .calls import _store_multi
                isnew = NOT(sel(base.dom, *ks))
                order = base.order
                if order is not None:
                    appended = VList(order.length + 1 if isinstance(order.length, int) else to_z3(order.length) + 1,
                                     sto(order.elems, [to_z3(order.length)], self.coerce(idx, base.kshape)), order.eshape)
                    order = tzip(lambda a, b: z3.If(isnew, a, b), appended, order) if conc_bool(isnew) is None else (
                        appended if conc_bool(isnew) else order)
                new = VDict(base.kshape, base.vshape, _store_multi(base.dom, ks, z3.BoolVal(True)),
                            sto(base.vals, ks, self.coerce(val, base.vshape)), order, base.default)
            elif isinstance(base, VHList):
                # item assignment into a fixed-length heterogeneous list: constant index, same element shape
                if not isinstance(idx, int) or isinstance(idx, bool):
                    raise Unsupported("symbolic index store into a heterogeneous list")
                if not (-len(base.items) <= idx < len(base.items)):
                    self.may_raise(True, "IndexError", node)
                    return
                try:
                    same = shape_of(val) == shape_of(base.items[idx])
                except Unsupported:
                    same = False
                if not same:
                    raise Unsupported("store into a heterogeneous list changes the element shape")
                items = list(base.items)
                items[idx] = val
                new = VHList(items)
            elif isinstance(base, VTuple) and isinstance(getattr(target, "ctx", None), ast.Load):
                # WRITE-BACK through a tuple component (the access path of a mutating call / nested item store, e.g.
                # `t[1].append(x)`, `xs[-1][1].append(x)`, `t[0][k] = v`: the path expression has Load context; a real item
                # store `t[1] = v` has Store context and is not handled here - it raises TypeError in Python).  The tuple
                # object is not changed by such a statement, the mutable value it holds is: with value semantics that is the
                # tuple with this component replaced (exact as long as the component is not aliased, as for every list value
                # of the engine).  Constant index, the component is a mutable container value and keeps its shape.
                if not isinstance(idx, int) or isinstance(idx, bool):
                    raise Unsupported("write-back through a symbolic tuple index")
                if not (-len(base.items) <= idx < len(base.items)):
                    self.may_raise(True, "IndexError", node)
                    return
                if not isinstance(base.items[idx], (VList, VDict, VSet, VHList)):
                    raise Unsupported("write-back into a tuple component that is not a list / dict / set value")
                try:
                    same = shape_of(val) == shape_of(base.items[idx])
                except Unsupported:
                    same = False
                if not same:
                    raise Unsupported("write-back into a tuple component changes its shape")
                items = list(base.items)
                items[idx] = val
                new = VTuple(items)
            elif isinstance(base, VEmptyDict):
                raise Unsupported("store into an untyped empty dict (declare its shape in the contract's `locals`)")
            else:
                raise Unsupported(f"subscript store on {type(base).__name__}")
            self.assign_to(target.value, new, st, node)
            return
        if type(target).__name__ == "BoxTarget":
            self.heap_write(st, target.ref, target.field, val)  # mutation of a list object: written back to the heap
            return
        raise Unsupported("assignment target")

    def dict_store(self, base, idx, val):
        """the dict after `base[idx] = val` (same construction as the subscript-store branch of assign_to)"""
        from .calls import _store_multi
        ks = key_terms(idx)
        isnew = NOT(sel(base.dom, *ks))
        order = base.order
        if order is not None:
            appended = VList(order.length + 1 if isinstance(order.length, int) else to_z3(order.length) + 1,
                             sto(order.elems, [to_z3(order.length)], self.coerce(idx, base.kshape)), order.eshape)
            order = tzip(lambda a, b: z3.If(isnew, a, b), appended, order) if conc_bool(isnew) is None else (
                appended if conc_bool(isnew) else order)
        return VDict(base.kshape, base.vshape, _store_multi(base.dom, ks, z3.BoolVal(True)),
                     sto(base.vals, ks, self.coerce(val, base.vshape)), order, base.default)

    def dd_touch(self, node, st, base, idx):
        """defaultdict read inserts the default value"""
        if self.spec:
            return
        ks = key_terms(idx)
        from .calls import _store_multi
        present = sel(base.dom, *ks)
        dflt = self.coerce(self.default_of(base.vshape), base.vshape)
        newvals = sto(base.vals, ks, ite_tree(present, sel(base.vals, *ks), dflt))
        order = base.order
        if order is not None:
            appended = VList(to_z3(order.length) + 1, sto(order.elems, [to_z3(order.length)], self.coerce(idx, base.kshape)), order.eshape)
            order = tzip(lambda a, b: z3.If(present, b, a), appended, order)
        new = VDict(base.kshape, base.vshape, _store_multi(base.dom, ks, z3.BoolVal(True)), newvals, order, base.default)
        self.assign_to(node.value, new, st, node)

    # ------------------------------------------------------------------ statements
    def exec_block(self, stmts, st, inline=False):
        """returns list of Outcomes; 'fall' outcomes have run all statements"""
        live = [st]
        done = []
        for s in stmts:
            if not live:
                break
            nxt = []
            for cur in live:
                for o in self.exec_stmt(s, cur):
                    if o.kind == "fall":
                        nxt.append(o.st)
                    else:
                        done.append(o)
            live = nxt
            if len(live) > self.max_paths:
                raise Unsupported(f"path explosion ({len(live)} live paths)")
        return done + [Outcome("fall", s_) for s_ in live]

    def with_raises(self, st, outs_normal, node):
        """turn recorded may-raise conditions into raise outcomes; restrict the normal state"""
        outs = []
        conds = []
        ordered = bool(getattr(self.sidecar, "ORDERED_RAISES", False))
        for c, exc, nd in self.mayraise:
            sr = st.copy()
            if ordered and conds:
                # opt-in of the sidecar: the conditions are recorded in evaluation order and the first subexpression that
                # raises ends the statement, so this exception is raised only if none of the earlier conditions held
                sr.pc.append(NOT(OR(*conds)))
            sr.pc.append(c)
            outs.append(Outcome("raise", sr, exc=exc, line=getattr(nd or node, "lineno", None)))
            outs[-1].node = nd or node
            conds.append(c)
        self.mayraise = []
        if conds:
            st.pc.append(NOT(OR(*conds)))
        return outs + outs_normal

    def exec_stmt(self, s, st):
        self.guard, self.mayraise = [], []
        self.cur_stmt = s
        self.run_ghost("before", s, st)
        sb_ = getattr(self.cur_contract, "stop_before", None)
        if sb_ and self.depth == 0 and ast.unparse(s).startswith(sb_):
            # PREFIX contract (see verify): symbolic execution of this function ends in front of this statement
            return [Outcome("stop", st)]
        m = getattr(self, "st_" + type(s).__name__, None)
        if m is None:
            raise Unsupported(f"statement {type(s).__name__} at line {s.lineno}")
        outs = m(s, st)
        for o in outs:
            if o.kind == "fall":
                self.run_ghost("after", s, o.st)
        return outs

    def st_Pass(self, s, st):
        return [Outcome("fall", st)]

    def st_FunctionDef(self, s, st):
        """nested `def`: binds the name to a closure over the current environment (applied like a lambda whose body is the
        function's statement list; only reached if something calls it)"""
        if s.decorator_list:
            raise Unsupported("decorated nested function")
        st.env[s.name] = VFunc("localdef", (s, dict(st.env)), s.name)
        return [Outcome("fall", st)]

    def st_Expr(self, s, st):
        if isinstance(s.value, ast.Constant):
            return [Outcome("fall", st)]  # docstring
        self.ev(s.value, st)
        return self.with_raises(st, [Outcome("fall", st)], s)

    def st_Assign(self, s, st):
        self.local_hint = None
        if len(s.targets) == 1 and isinstance(s.targets[0], ast.Name) and s.targets[0].id in self.cur_locals:
            self.local_hint = self.shape(self.cur_locals[s.targets[0].id])  # declared shape of the local being assigned
        try:
            val = self.ev(s.value, st)
        finally:
            self.local_hint = None
        val = self.typed_local(s, val, st)
        # `x = e` where evaluating e raises leaves x as it was: the exceptional outcomes (which matter when an enclosing
        # try/except catches them) keep the previous binding of a plain-name target
        before = {t.id: st.env.get(t.id, _UNBOUND) for t in s.targets if isinstance(t, ast.Name)}
        for t in s.targets:
            self.bind_target(t, val, st, s)
        outs = self.with_raises(st, [Outcome("fall", st)], s)
        for o in outs:
            if o.kind == "raise":
                for n_, v_ in before.items():
                    if v_ is _UNBOUND:
                        o.st.env.pop(n_, None)
                    else:
                        o.st.env[n_] = v_
        return outs

    def typed_local(self, s, val, st):
        """empty containers get their shape from the contract's `locals` table"""
        if len(s.targets) == 1 and isinstance(s.targets[0], ast.Name):
            shp = self.cur_locals.get(s.targets[0].id)
            if shp is not None:
                shp = self.shape(shp)
                obj = self.new_container_object(shp, val, s, st)
                if obj is not None:
                    return obj
                if isinstance(val, VList) and val.elems is None:
                    return self.default_of(shp)
                if isinstance(val, VEmptyDict) and shp[0] == "rec" and self.classes.get(shp[1], {}).get("dict_keys"):
                    # `d = {}` for a local declared as a dict with a fixed key set (record class with "dict_keys"): the empty
                    # dict has none of the keys, so it is NOT a value of the record - it stays the untyped empty dict, which no
                    # operation reads (every use is refused as Unsupported); a later full dict literal re-binds the local
                    return val
                if isinstance(val, (VEmptyDict, VEmptySet)):
                    return self.empty_of(shp, val)
                if val is None and shp[0] == "opt":
                    return self.coerce(None, shp)  # `x = None` for a local declared Optional: the None of that Optional shape
                if shp == ("list", ("char",)) and isinstance(val, VList) and val.elems is not None and val.eshape == ("str",):
                    # a list of one-character strings declared as a list of characters: only when every element is the
                    # same constant character (e.g. ["." for _ in range(n)])
                    probe = z3.simplify(z3.Select(val.elems, z3.Int(uid("q"))))
                    if z3.is_string_value(probe) and len(probe.as_string()) == 1:
                        from .values import VChar
                        return VList(val.length, VChar(z3.K(z3.IntSort(), z3.IntVal(ord(probe.as_string())))), ("char",))
                    raise Unsupported("list of strings assigned to a local declared as a list of characters")
        return val

    def new_container_object(self, shp, val, node, st):
        """`x = []` / `x = set()` for a local the contract declares as a REFERENCE to a class that models a list object
        ("boxed_list") / a set object ("boxed_set") with identity: the display creates a NEW object (own identity, taken from
        the allocation frontier) whose content is empty - what Python does; aliases of x (elements of other lists, loop
        variables) then denote the same object.  Any other list / set value for such a local is refused.  None: not such a local."""
        if shp[0] != "ref" or self.spec:
            return None
        info = self.classes.get(shp[1], {})
        fld = info.get("boxed_list") or info.get("boxed_set") or info.get("boxed_valueset")
        if not fld:
            return None
        if info.get("boxed_list") and isinstance(val, VList) and val.elems is None:
            return self.construct(shp[1], [], {fld: self.default_of(self.field_shape(shp[1], fld))}, node, st)
        if info.get("boxed_set") and isinstance(val, VEmptySet):
            return self.construct(shp[1], [], {fld: self.default_of(self.field_shape(shp[1], fld))}, node, st)
        if info.get("boxed_valueset") and isinstance(val, VEmptySet):
            # a set object whose members have no key sort (records with list fields): content = the LIST of the values added so
            # far, membership = equality with one of them (CallMixin.boxed_valueset_method); `set()` creates the empty one
            return self.construct(shp[1], [], {fld: self.default_of(self.field_shape(shp[1], fld))}, node, st)
        if isinstance(val, (VList, VSet, VEmptySet)):
            raise Unsupported(f"a list / set value other than an empty display assigned to a local declared as the object {shp[1]}")
        return None

    def empty_of(self, shp, val):
        if shp[0] == "set":
            return self.default_of(shp)
        if shp[0] == "dict":
            ks = key_sorts(shp[1])
            dom = z3.BoolVal(False)
            for k in reversed(ks):
                dom = z3.K(k, dom)
            vals = fresh(shp[2], uid("dvals"), tuple(ks))
            order = VList(0, fresh(shp[1], uid("dorder"), (I,)), shp[1])
            return VDict(shp[1], shp[2], dom, vals, order, getattr(val, "default", None))
        raise Unsupported("empty_of")

    def st_AnnAssign(self, s, st):
        if s.value is None:
            return [Outcome("fall", st)]
        val = self.ev(s.value, st)
        fake = ast.Assign(targets=[s.target], value=s.value, lineno=s.lineno)
        val = self.typed_local(fake, val, st)
        self.bind_target(s.target, val, st, s)
        return self.with_raises(st, [Outcome("fall", st)], s)

    def st_AugAssign(self, s, st):
        load = ast.fix_missing_locations(ast.copy_location(_as_load(s.target), s.target))
        cur = self.ev(load, st)
        iop = {ast.Add: "__iadd__", ast.Sub: "__isub__", ast.Mult: "__imul__"}.get(type(s.op))
        if isinstance(cur, VRef) and iop and f"{cur.cls}.{iop}" in self.externals:
            # `x += y` on an object whose class has the in-place special method (sidecar external, third-party class):
            # x = x.__iadd__(y).  The model may write the heap; inside a loop the loop contract must name what it writes
            # (`writes`), which is checked here because the syntactic write analysis cannot see through the call
            fields_ = getattr(self.externals[f"{cur.cls}.{iop}"], "writes", None)
            k_ = self.enclosing_loop.get(id(s))
            while k_ is not None:  # every loop around the statement
                lc_ = self.cur_loops.get(k_)
                declared = set(lc_.get("writes", ())) if isinstance(lc_, dict) else set()
                if fields_ is None or not set(fields_) <= declared:
                    raise Unsupported(f"{cur.cls}.{iop} is called in loop #{k_}, whose contract does not declare `writes` for {fields_}")
                k_ = getattr(self, "loop_parent", {}).get(k_)
            self.used_externals.add(f"{cur.cls}.{iop}")
            val = self.externals[f"{cur.cls}.{iop}"](self, [cur, self.ev(s.value, st)], {}, s, st)
        else:
            val = self.binop(s.op, cur, self.ev(s.value, st), s, st)
        self.assign_to(s.target, val, st, s)
        return self.with_raises(st, [Outcome("fall", st)], s)

    def st_Return(self, s, st):
        val = self.ev(s.value, st) if s.value is not None else None
        return self.with_raises(st, [Outcome("return", st, value=val)], s)

    def st_Break(self, s, st):
        return [Outcome("break", st)]

    def st_Continue(self, s, st):
        return [Outcome("continue", st)]

    def st_Raise(self, s, st):
        exc = "Exception"
        if s.exc is not None:
            e = s.exc.func if isinstance(s.exc, ast.Call) else s.exc
            exc = e.id if isinstance(e, ast.Name) else getattr(e, "attr", "Exception")
        o = Outcome("raise", st, exc=exc, line=s.lineno)
        o.node = s
        return [o]

    def st_Assert(self, s, st):
        c = self.truth(self.ev(s.test, st))
        self.may_raise(NOT(c), "AssertionError", s)
        return self.with_raises(st, [Outcome("fall", st)], s)

    def st_If(self, s, st):
        try:
            tv = self.ev(s.test, st)
            if isinstance(tv, VRef) and self.classes.get(tv.cls, {}).get("boxed_list"):
                tv = self.heap_read(st, tv, self.classes[tv.cls]["boxed_list"])  # `if xs:` on a list object: its current content is non-empty
            c = self.truth(tv)
        except (Unsupported, z3.Z3Exception):
            # (Z3Exception: the operands' values have different sorts, e.g. `opt_str and a != b` - str or bool - so the VALUE of
            # the test has no common value tree either; same fallback)
            if not isinstance(s.test, ast.BoolOp):
                raise
            # `if a and b:` whose operands have no common value tree (e.g. `x is None and some_list`): only the truth of the
            # test matters here - evaluated again from scratch, combining the operands' truth values (ev_cond)
            self.guard, self.mayraise = [], []
            c = self.ev_cond(s.test, st)
        pre = self.with_raises(st, [], s)
        cb = conc_bool(c)
        if cb is None:
            cb = self.decided(st, c)
        outs = list(pre)
        if cb is not False:
            s1 = st.copy() if cb is None else st
            if cb is None:
                s1.pc.append(to_z3(c))
            self.narrow(s.test, True, s1)
            outs += self.exec_block(s.body, s1)
        if cb is not True:
            s2 = st.copy() if cb is None else st
            if cb is None:
                s2.pc.append(NOT(c))
            self.narrow(s.test, False, s2)
            outs += self.exec_block(s.orelse, s2)
        return outs

    def not_none_names(self, test, truth):
        """local names that are certainly not None when `test` evaluates to `truth` (syntactic: `x is None`,
        `x is not None`, and/or/not combinations)"""
        if isinstance(test, ast.UnaryOp) and isinstance(test.op, ast.Not):
            return self.not_none_names(test.operand, not truth)
        if isinstance(test, ast.BoolOp):
            if isinstance(test.op, ast.And) == truth:  # (a and b) true / (a or b) false: every operand has that value
                out = set()
                for v in test.values:
                    out |= self.not_none_names(v, truth)
                return out
            return set()
        if isinstance(test, ast.Compare) and len(test.ops) == 1 and isinstance(test.left, ast.Name) \
                and isinstance(test.comparators[0], ast.Constant) and test.comparators[0].value is None:
            if (isinstance(test.ops[0], ast.IsNot) and truth) or (isinstance(test.ops[0], ast.Is) and not truth):
                return {test.left.id}
        if isinstance(test, ast.Name) and truth:
            return {test.id}  # `if x:` taken: x is truthy, and None is falsy, so x is not None
        return set()

    def narrow(self, test, truth, st):
        """on the branch where `x is not None` holds (it is in the path condition), an Optional local x denotes its
        payload; remembered in st.narrowed so that a loop that re-assigns x havocs it as an Optional again"""
        for n in self.not_none_names(test, truth):
            v = st.env.get(n)
            if isinstance(v, VOpt):
                val = v.val
                if not self.spec and self.depth == 0:
                    # in the function under verification itself (not inside an inlined helper, whose path facts are folded
                    # into conditions): a compound payload gets a name - a fresh constant defined equal to it - which
                    # keeps later terms small and usable as quantifier triggers
                    def named(leaf):
                        if z3.is_const(leaf) or z3.is_int_value(leaf) or z3.is_string_value(leaf):
                            return leaf
                        c = z3.Const(uid(n + ".some"), leaf.sort())
                        st.assume(c == leaf)
                        return c
                    val = tmap(named, val)
                st.env[n] = val
                st.narrowed = st.narrowed | {n}

    def st_With(self, s, st):
        """with EXPR as VAR: BODY  ==  mgr = EXPR; VAR = mgr.__enter__(); BODY; mgr.__exit__(None, None, None) on every way
        out of BODY (fall-through, return, break, continue).  When BODY raises, __exit__ receives the exception and may
        swallow it by returning a true value: only managers whose __exit__ returns a constant false value are handled."""
        if len(s.items) != 1:
            raise Unsupported("with statement with several items")
        item = s.items[0]
        mgr = self.ev(item.context_expr, st)
        val = self.call_method(mgr, "__enter__", [], {}, s, st)
        if item.optional_vars is not None:
            self.bind_target(item.optional_vars, val, st, s)
        outs = self.with_raises(st, [], s)
        for o in self.exec_block(s.body, st):
            self.guard, self.mayraise = [], []
            self.cur_stmt = s
            exc = [None, None, None] if o.kind != "raise" else [VConc(Exception), VConc(Exception()), VConc(None)]
            r = self.call_method(mgr, "__exit__", exc, {}, s, o.st)
            if o.kind == "raise" and conc_bool(self.truth(r)) is not False:
                raise Unsupported("context manager whose __exit__ may swallow the exception")
            outs += self.with_raises(o.st, [o], s)
        return outs

    def ev_Dict(self, node, st):
        if node.keys:
            hint = getattr(self, "local_hint", None)
            if hint is not None and hint[0] == "rec" and self.classes.get(hint[1], {}).get("dict_keys") \
                    and all(isinstance(k_, ast.Constant) and isinstance(k_.value, str) for k_ in node.keys):
                # {"k1": e1, ..} assigned to a local declared `rec[Cls]` where Cls models a dict with a fixed key set (class
                # entry "dict_keys": True): the literal must give exactly the record's field names, each once; the values
                # are evaluated in source order
                names = [k_.value for k_ in node.keys]
                fields = self.classes[hint[1]]["fields"]
                if len(set(names)) == len(names) and set(names) == set(fields):
                    vals = [self.ev(v_, st) for v_ in node.values]
                    return VRec(hint[1], {n_: self.coerce(v_, self.shape(fields[n_])) for n_, v_ in zip(names, vals)})
            if hint is not None and hint[0] == "ref" and self.classes.get(hint[1], {}).get("dict_keys") \
                    and self.classes[hint[1]].get("kind") == "object" and not self.spec \
                    and all(isinstance(k_, ast.Constant) and isinstance(k_.value, str) for k_ in node.keys):
                # the same literal assigned to a local declared `Cls` (a reference) where Cls models a dict OBJECT with a fixed
                # key set whose values live in heap fields (the dict is shared with callees that mutate what it holds): a
                # new object, one field per key, values evaluated in source order
                names = [k_.value for k_ in node.keys]
                fields = self.classes[hint[1]]["fields"]
                if len(set(names)) == len(names) and set(names) == set(fields):
                    vals = [self.ev(v_, st) for v_ in node.values]
                    return self.construct(hint[1], [], dict(zip(names, vals)), node, st)
            raise Unsupported("non-empty dict literal")
        return VEmptyDict()

    def st_Try(self, s, st):
        if s.finalbody:
            # try: B [except ..] [else ..] finally: F  ==  the same statement without its finally clause, then F on EVERY way out
            # of it (fall-through, return, break, continue, an exception that no handler took).  When F completes normally the
            # pending exit goes on (a return keeps the value computed before F ran, an exception propagates); when F itself
            # leaves (return / break / continue / raise), that exit replaces the pending one.
            inner = ast.copy_location(ast.Try(body=s.body, handlers=s.handlers, orelse=s.orelse, finalbody=[]), s)
            outs = []
            for o in self.st_Try(inner, st):
                if o.kind == "stop":  # (cut of a prefix contract: symbolic execution ends there)
                    outs.append(o)
                    continue
                for f in self.exec_block(s.finalbody, o.st):
                    if f.kind != "fall":
                        outs.append(f)
                        continue
                    p = Outcome(o.kind, f.st, value=o.value, exc=o.exc, line=o.line)
                    if hasattr(o, "node"):
                        p.node = o.node
                    outs.append(p)
            return outs
        outs = []
        for o in self.exec_block(s.body, st):
            if o.kind == "raise":
                handler = self.find_handler(s.handlers, o.exc)
                if handler is not None:
                    if handler.name:
                        o.st.env[handler.name] = VConc(Exception())
                    outs += self.exec_block(handler.body, o.st)
                    continue
            elif o.kind == "fall" and s.orelse:
                outs += self.exec_block(s.orelse, o.st)
                continue
            outs.append(o)
        return outs

    EXC_PARENTS = {"IndexError": ["LookupError", "Exception"], "KeyError": ["LookupError", "Exception"],
                   "ValueError": ["Exception"], "TypeError": ["Exception"], "StopIteration": ["Exception"],
                   "ZeroDivisionError": ["ArithmeticError", "Exception"], "AttributeError": ["Exception"],
                   "AssertionError": ["Exception"], "PulpSolverError": ["PulpError", "Exception"],
                   "RuntimeError": ["Exception"], "Exception": []}

    def find_handler(self, handlers, exc):
        for h in handlers:
            if h.type is None:
                return h
            names = [h.type] if not isinstance(h.type, ast.Tuple) else h.type.elts
            for n in names:
                nm = n.id if isinstance(n, ast.Name) else n.attr
                if nm == exc or nm in self.EXC_PARENTS.get(exc, ["Exception"]) or nm == "BaseException":
                    return h
        return None

    # ------------------------------------------------------------------ loops
    def loop_contract(self, s):
        k = self.loop_ordinal[id(s)]
        lc = self.cur_loops.get(k)
        if lc is None:
            raise ContractError(f"loop #{k} (line {s.lineno}) has no invariant in the sidecar")
        if isinstance(lc, (list, tuple)):
            lc = {"inv": list(lc)}
        return k, lc

    def assigned_in(self, stmts):
        """names assigned and heap fields written (syntactic over-approximation) in a block"""
        names, fields = set(), set()
        # list objects with identity (class entries with "boxed_list"): an item store or a mutating method call on any
        # expression may go to such an object (its class is not known syntactically) -> all their content fields
        boxed = [info["boxed_list"] for info in self.classes.values() if info.get("boxed_list")]
        boxed += [info["boxed_set"] for info in self.classes.values() if info.get("boxed_set")]  # set objects: likewise
        boxed += [info["boxed_valueset"] for info in self.classes.values() if info.get("boxed_valueset")]  # likewise

        def tgt(t):
            if isinstance(t, ast.Name):
                names.add(t.id)
            elif isinstance(t, (ast.Tuple, ast.List)):
                for e in t.elts:
                    tgt(e)
            elif isinstance(t, ast.Starred):
                tgt(t.value)
            elif isinstance(t, ast.Subscript):
                fields.update(boxed)
                tgt(t.value)
            elif isinstance(t, ast.Attribute):
                fields.add(t.attr)
                # a store through x.f[i] also changes x.f
                b = t.value
                while isinstance(b, (ast.Subscript, ast.Attribute)):
                    b = b.value

        for s in stmts:
            for n in ast.walk(s):
                if isinstance(n, ast.Assign):
                    for t in n.targets:
                        tgt(t)
                elif isinstance(n, (ast.AugAssign, ast.AnnAssign)):
                    tgt(n.target)
                elif isinstance(n, (ast.For, ast.comprehension)):
                    tgt(n.target)
                elif isinstance(n, ast.Call) and isinstance(n.func, ast.Attribute):
                    if n.func.attr in MUTATING:
                        fields.update(boxed)
                        tgt(n.func.value)
                    # contract calls: modifies
                elif isinstance(n, ast.Subscript) and isinstance(n.ctx, ast.Load):
                    # defaultdict reads insert keys
                    b = n.value
                    if isinstance(b, ast.Name) and b.id in self.defaultdict_names:
                        names.add(b.id)
                elif isinstance(n, ast.NamedExpr):
                    tgt(n.target)
                elif isinstance(n, ast.withitem) and n.optional_vars is not None:
                    tgt(n.optional_vars)
        return names, fields

    def havoc(self, st, names, fields, tag, touches=None):
        """touches (loop contract): {"Cls.f": [object expressions]} - for a field name that occurs there only the named
        classes are written by the loop (checked at every write in the body), and only the cells of the named objects"""
        touched_names = {k_.split(".")[1] for k_ in (touches or {})}
        before = dict(st.heap)
        self._havoc(st, names, {f for f in fields if f not in touched_names}, tag)
        for key_, exprs in (touches or {}).items():
            cls, f = key_.split(".")
            if f not in fields:
                continue
            old = self.heap_tree(st, cls, f)
            new = fresh(self.field_shape(cls, f), uid(f"H.{cls}.{f}@{tag}"), (I,))
            st.heap[(cls, f)] = new
            self.assume_heap_wf(st, cls, f)
            targets = [to_z3(self.spec_value(e_, st).ident) for e_ in exprs]
            r = z3.Int(uid("r"))
            same = AND(*[z3.Select(x, r) == z3.Select(y, r) for x, y in zip(leaves(new), leaves(old))])
            st.assume(z3.ForAll([r], z3.Implies(AND(*[r != t for t in targets]), same)))

    def _havoc(self, st, names, fields, tag):
        for n in sorted(names):
            if n in st.env:
                v = st.env[n]
                try:
                    st.env[n] = self.fresh_like(v, uid(f"{n}@{tag}"))
                    self.assume_dict_wf(st, st.env[n])
                    if n in st.narrowed:  # narrowed Optional re-assigned in the loop: unknown Optional at the head
                        st.env[n] = VOpt(z3.Bool(uid(f"{n}@{tag}.none")), st.env[n])
                        st.narrowed = st.narrowed - {n}
                except Unsupported as e:
                    raise Unsupported(f"cannot havoc loop variable {n}: {e}")
        for (cls, f) in list(st.heap.keys()):
            if f in fields:
                st.heap[(cls, f)] = fresh(self.field_shape(cls, f), uid(f"H.{cls}.{f}@{tag}"), (I,))
                self.assume_heap_wf(st, cls, f)
        for cls, info in self.classes.items():
            for f in info.get("fields", {}):
                if f in fields and (cls, f) not in st.heap and info.get("kind") != "record":
                    self.heap_tree(st, cls, f)
                    st.heap[(cls, f)] = fresh(self.field_shape(cls, f), uid(f"H.{cls}.{f}@{tag}"), (I,))
                    self.assume_heap_wf(st, cls, f)

    def assume_dict_wf(self, st, d):
        """representation invariant of an insertion-ordered dict (opt-in: sidecar DICT_ORDER_INVARIANT): `order` lists exactly
        the keys of `dom`, each once (rank = the unknown position of a key).  Every operation the engine models on a dict
        (store of a new / an existing key, defaultdict read) preserves it, so it holds for the unknown dict at a loop head."""
        if not (isinstance(d, VDict) and d.order is not None and getattr(self.sidecar, "DICT_ORDER_INVARIANT", False)):
            return
        ksorts = key_sorts(d.kshape)
        ks = [z3.Const(uid("k"), srt) for srt in ksorts]
        rank = fresh(("int",), uid("dict.rank"), tuple(ksorts))
        L = to_z3(d.order.length)
        p_, q_ = z3.Int(uid("p")), z3.Int(uid("q"))
        at = lambda t: key_terms(sel(d.order.elems, t))
        st.assume(L >= 0)
        st.assume(z3.ForAll([p_], z3.Implies(z3.And(p_ >= 0, p_ < L), sel(d.dom, *at(p_)))))
        st.assume(z3.ForAll([p_, q_], z3.Implies(z3.And(p_ >= 0, p_ < q_, q_ < L), z3.Or(*[a != b for a, b in zip(at(p_), at(q_))]))))
        rk = sel(rank, *ks)
        st.assume(z3.ForAll(ks, z3.Implies(sel(d.dom, *ks), z3.And(rk >= 0, rk < L, *[a == b for a, b in zip(at(rk), ks)]))))

    def havoc_ghost(self, st, stmts, tag):
        """ghost variables that a ghost block anchored inside the loop body re-binds (`let`) are loop-modified state:
        unknown at the loop head like any assigned program variable (constrained only by the invariants)"""
        lets = [(g, [c.strip()[4:].split("=", 1)[0].strip() for c in g["do"] if c.strip().startswith("let ")]) for g in self.cur_ghost]
        lets = [(g, ns) for g, ns in lets if any(n in st.ghost for n in ns)]
        if not lets:
            return
        hit = set()
        for top in stmts:
            for n in ast.walk(top):
                if isinstance(n, ast.stmt):
                    text = ast.unparse(n)
                    for g, ns in lets:
                        # same firing condition as run_ghost (anchor text and, if given, the enclosing loop ordinal)
                        if text.startswith(g["at"]) and ("loop" not in g or g["loop"] == self.enclosing_loop.get(id(n))):
                            hit.update(ns)
        for n in sorted(hit):
            if n in st.ghost:
                st.ghost[n] = self.fresh_like(st.ghost[n], uid(f"{n}@{tag}"))

    def fresh_like(self, v, name):
        if isinstance(v, VList) and v.elems is None:
            raise Unsupported("untyped empty list modified in a loop (declare it in `locals`)")
        if isinstance(v, VDict):
            d = fresh(("dict", v.kshape, v.vshape), name)
            d.default = v.default
            if v.order is not None:
                d.order = fresh(("list", v.kshape), name + ".order")
            return d
        if isinstance(v, VRec):
            return VRec(v.cls, {k: self.fresh_like(x, f"{name}.{k}") for k, x in v.fields.items()})
        if isinstance(v, VTuple):
            return VTuple([self.fresh_like(x, f"{name}.{k}") for k, x in enumerate(v.items)])
        if isinstance(v, VOpt):
            return VOpt(z3.Bool(name + ".none"), self.fresh_like(v.val, name + ".some"))
        if isinstance(v, (VFunc, VConc)) or v is None:
            raise Unsupported(f"value of kind {type(v).__name__} reassigned in a loop")
        return fresh(shape_of(v), name)

    def fresh_value(self, shp, name, st):
        if shp[0] == "rec":
            info = self.classes[shp[1]]
            return VRec(shp[1], {f: self.fresh_value(self.shape(s), f"{name}.{f}", st) for f, s in info["fields"].items()})
        if shp[0] == "tuple":
            return VTuple([self.fresh_value(s, f"{name}.{k}", st) for k, s in enumerate(shp[1])])
        if shp[0] == "opt":
            return VOpt(z3.Bool(name + ".none"), self.fresh_value(shp[1], name + ".some", st))
        return fresh(shp, name)

    def check_invs(self, k, lc, st, phase, node):
        for j, text in enumerate(lc.get("inv", [])):
            lab = lc.get("labels", {}).get(j)  # optional readable tag per invariant: loop2.inv4[kd-radius].init
            self.emit(f"loop{k}.inv{j}{'[' + lab + ']' if lab else ''}.{phase}", st, self.spec_eval(text, st), node, kind="invariant")

    def assume_invs(self, lc, st):
        for text in lc.get("inv", []):
            st.assume(to_z3(self.spec_eval(text, st)))

    def iter_plan(self, it, s, st):
        """-> (length term, element(k) function or None, guard(x) preds)"""
        preds = []
        if isinstance(it, VFilter):
            preds = it.preds
            it = it.base
        if isinstance(it, VRange):
            lo, hi = it.lo, it.hi
            n = (hi - lo) if isinstance(hi, int) and isinstance(lo, int) else to_z3(hi) - to_z3(lo)
            n = max(n, 0) if isinstance(n, int) else z3.If(n > 0, n, z3.IntVal(0))
            return n, (lambda k: k + lo if is_conc(lo) and lo == 0 else to_z3(k) + to_z3(lo)), preds, lo
        if isinstance(it, VList):
            if it.elems is None:
                return 0, (lambda k: None), preds, 0
            return it.length, (lambda k: sel(it.elems, to_z3(k))), preds, 0
        if isinstance(it, VEnumerate):
            n, el, p2, _ = self.iter_plan(it.base, s, st)
            start = it.start
            return n, (lambda k: VTuple([to_z3(k) + to_z3(start) if not (is_conc(start) and start == 0) else k, el(k)])), preds + p2, 0
        if isinstance(it, VJoined):
            return self.iter_plan(it.lst, s, st)
        if isinstance(it, VZip) and it.parts and all(isinstance(p_, VList) and p_.elems is not None for p_ in it.parts):
            # zip(L1, .., Lk) over lists: stops with the shortest one; step t yields the tuple (L1[t], .., Lk[t])
            parts = list(it.parts)
            n = to_z3(parts[0].length)
            for p_ in parts[1:]:
                n = z3.If(to_z3(p_.length) < n, to_z3(p_.length), n)
            return n, (lambda k: VTuple([sel(p_.elems, to_z3(k)) for p_ in parts])), preds, 0
        if isinstance(it, VConc) and isinstance(it.obj, type) and issubclass(it.obj, enum.Enum) and len(it.obj) >= 1:
            # iterating an Enum class under a loop contract (otherwise the loop is unrolled): its members in definition order;
            # member number k is the symbolic member whose name is the k-th name
            members = list(it.obj)
            def member(k, members=members, cls=it.obj):
                nm = z3.StringVal(members[-1].name)
                for pos in range(len(members) - 2, -1, -1):
                    nm = z3.If(to_z3(k) == pos, z3.StringVal(members[pos].name), nm)
                return VEnumSym(cls, nm, "name")
            return len(members), member, preds, 0
        if is_leaf(it) and it.sort() == z3.StringSort():
            return z3.Length(it), (lambda k: z3.SubString(it, to_z3(k), 1)), preds, 0
        if isinstance(it, VDict) and it.order is not None:
            it = VDictView(it, "keys")  # iterating a dict iterates its keys (insertion order)
        if isinstance(it, (VSet, VDictView, VEnumSet)):
            return self.set_iter_plan(it, s, st) + (preds, 0)
        raise Unsupported(f"iteration over {type(it).__name__} at line {s.lineno}")

    def set_iter_plan(self, it, s, st):
        """arbitrary duplicate-free enumeration of a set / dict view: ghost sequence `seq`"""
        if isinstance(it, VDictView):
            d = it.d
            if d.order is not None:
                # insertion order is a language guarantee
                order = d.order
                if it.which == "keys":
                    return order.length, (lambda k: sel(order.elems, to_z3(k)))
                if it.which == "values":
                    return order.length, (lambda k: sel(d.vals, *key_terms(sel(order.elems, to_z3(k)))))
                return order.length, (lambda k: VTuple([sel(order.elems, to_z3(k)), sel(d.vals, *key_terms(sel(order.elems, to_z3(k))))]))
            member, kshape = (lambda ks: sel(d.dom, *ks)), d.kshape
            wrap = {"keys": lambda key: key, "values": lambda key: sel(d.vals, *key_terms(key)),
                    "items": lambda key: VTuple([key, sel(d.vals, *key_terms(key))])}[it.which]
        elif isinstance(it, VSet):
            member, kshape, wrap = (lambda ks: sel(it.mem, *ks)), it.kshape, (lambda key: key)
        else:
            member, kshape, wrap = it.member, it.kshape, (lambda key: key)
        seq = fresh(("list", kshape), uid("enum"))
        n = to_z3(seq.length)
        q, w = z3.Int(uid("q")), z3.Int(uid("w"))
        kq, kw = key_terms(sel(seq.elems, q)), key_terms(sel(seq.elems, w))
        st.assume(n >= 0)
        st.assume(z3.ForAll([q], z3.Implies(z3.And(q >= 0, q < n), to_z3(member(kq)))))
        st.assume(z3.ForAll([q, w], z3.Implies(z3.And(q >= 0, q < w, w < n), z3.Or(*[a != b for a, b in zip(kq, kw)]))))
        ks = [z3.Const(uid("k"), srt) for srt in key_sorts(kshape)]
        st.assume(z3.ForAll(ks, z3.Implies(to_z3(member(ks)), z3.Exists([q], z3.And(q >= 0, q < n, *[a == b for a, b in zip(kq, ks)])))))
        self.last_enum = seq
        return seq.length, (lambda k: wrap(sel(seq.elems, to_z3(k))))

    def st_For(self, s, st):
        it = self.ev(s.iter, st)
        boxed_it = None
        if isinstance(it, VRef) and self.classes.get(it.cls, {}).get("boxed_list"):
            # iteration over a list object: Python reads element k of the *current* list at step k.  The content at loop
            # entry is iterated instead, which is the same provided the body leaves this list object unchanged - that is an
            # obligation of every iteration (`iterated-list-unchanged`), assumed at the loop head like an invariant
            boxed_it = (it, self.classes[it.cls]["boxed_list"])
            it = self.heap_read(st, *boxed_it)
            if isinstance(it.length, int):
                raise Unsupported("iteration over a list object of concrete length")
        pre = self.with_raises(st, [], s)
        conc = self.conc_iter(it) if not isinstance(it, VFilter) else None
        if conc is not None and id(s) in self.loop_ordinal and self.loop_ordinal[id(s)] not in self.cur_loops:
            return pre + self.unroll_for(s, conc, st)
        k, lc = self.loop_contract(s)
        n, elem, preds, lo = self.iter_plan(it, s, st)
        seq_of_this_loop = getattr(self, "last_enum", None)  # captured now: a nested loop's iter_plan overwrites the attribute
        idx_name = lc.get("index")
        direct = isinstance(it, VRange) and isinstance(s.target, ast.Name) and idx_name is None
        if direct:
            idx_name = "__it%d" % k
        elif idx_name is None:
            idx_name = "__it%d" % k
        names, fields = self.assigned_in(s.body)
        fields = fields | {x.split(".")[1] for x in lc.get("writes", ())}  # heap fields written through calls (declared)
        if isinstance(s.iter, ast.Name) and s.iter.id in names:
            raise Unsupported("loop modifies the list it iterates over")
        zn = to_z3(n)
        lo_t = to_z3(lo)
        alloc_in = st.alloc  # allocation frontier at loop entry (after the iterable has been evaluated)

        def bind_head(state, kval):
            state.env[idx_name] = kval
            if lc.get("frontier"):
                state.ghost[lc["frontier"]] = alloc_in  # ghost name for the frontier at loop entry: objects the loop creates lie at or above it
            if direct:
                state.env[s.target.id] = to_z3(kval) + lo_t if not (is_conc(lo) and lo == 0) else kval
            if lc.get("seq"):
                state.ghost[lc["seq"]] = seq_of_this_loop
            if lc.get("iter"):
                state.ghost[lc["iter"]] = it  # ghost name for the value of the iterable expression (evaluated once)
            if lc.get("elems"):
                # ghost name for the LIST of the elements visited, in order: the list itself, or the insertion-ordered keys
                # of a dict (iterating a dict visits its keys in insertion order)
                if isinstance(it, VList) and it.elems is not None:
                    state.ghost[lc["elems"]] = it
                elif isinstance(it, VDict) and it.order is not None:
                    state.ghost[lc["elems"]] = it.order
                elif isinstance(it, VSet) and seq_of_this_loop is not None:
                    # a set: the arbitrary duplicate-free enumeration (set_iter_plan) this loop runs over
                    state.ghost[lc["elems"]] = seq_of_this_loop
                else:
                    raise ContractError(f"loop #{k}: `elems` is only available for a list or an insertion-ordered dict")

        # init
        s0 = st
        bind_head(s0, z3.IntVal(0))
        self.check_invs(k, lc, s0, "init", s)
        # arbitrary iteration
        sh = s0.copy()
        self.havoc(sh, names - ({s.target.id} if direct else set()), fields, f"loop{k}", lc.get("touches"))
        self.havoc_allocates(k, lc, sh, s0)
        self.havoc_ghost(sh, s.body, f"loop{k}")
        kv = z3.Int(uid(f"it{k}"))
        bind_head(sh, kv)
        sh.assume(z3.And(kv >= 0, kv <= zn))
        self.assume_invs(lc, sh)
        if boxed_it:
            sh.assume(_same_list(self.heap_read(sh, *boxed_it), it))
        outs = list(pre)
        # body
        sb = sh.copy()
        sb.assume(kv < zn)
        if not direct:
            self.guard, self.mayraise = [], []
            self.bind_target(s.target, elem(kv), sb, s)
            outs += self.with_raises(sb, [], s)
        body_states = [sb]
        skip_states = []
        if preds:
            sk = sb.copy()
            self.guard, self.mayraise = [], []
            x = elem(kv)
            c = AND(*[self.truth(self.apply(f, [x], sb, s)) for f in preds])
            outs += self.with_raises(sb, [], s)
            sb.pc.append(to_z3(c))
            sk.pc = list(sb.pc[:-1]) + [NOT(c)]
            skip_states = [sk]
        after = []
        dec = lc.get("decreases")
        for o in self.with_touches(k, lc, sb, lambda: self.exec_block(s.body, sb)) + [Outcome("fall", x_) for x_ in skip_states]:
            if o.kind in ("fall", "continue"):
                bind_head(o.st, kv + 1)
                self.check_invs(k, lc, o.st, "preserve", s)
                if boxed_it:
                    self.emit(f"loop{k}.iterated-list-unchanged", o.st, _same_list(self.heap_read(o.st, *boxed_it), it), s, kind="invariant")
            elif o.kind == "break":
                after.append(o.st)
            else:
                outs.append(o)
        # exit
        se = sh.copy()
        se.assume(kv == zn)
        if direct:
            # after the loop the target keeps its last value; only defined if the loop ran - leave as head value - 1
            pass
        if s.orelse:
            for o in self.exec_block(s.orelse, se):
                if o.kind == "fall":
                    after.append(o.st)
                else:
                    outs.append(o)
        else:
            after.append(se)
        return outs + [Outcome("fall", a) for a in after]

    def unroll_for(self, s, items, st):
        live = [st]
        outs = []
        for x in items:
            nxt = []
            for cur in live:
                self.guard, self.mayraise = [], []
                self.bind_target(s.target, x, cur, s)
                for o in self.exec_block(s.body, cur):
                    if o.kind in ("fall", "continue"):
                        nxt.append(o.st)
                    elif o.kind == "break":
                        outs.append(Outcome("fall", o.st))
                    else:
                        outs.append(o)
            live = nxt
        for cur in live:
            if s.orelse:
                outs += self.exec_block(s.orelse, cur)
            else:
                outs.append(Outcome("fall", cur))
        return outs

    def st_While(self, s, st):
        k, lc = self.loop_contract(s)
        names, fields = self.assigned_in(s.body)
        fields = fields | {x.split(".")[1] for x in lc.get("writes", ())}  # heap fields written through calls (declared)
        self.check_invs(k, lc, st, "init", s)
        sh = st.copy()
        self.havoc(sh, names, fields, f"loop{k}", lc.get("touches"))
        self.havoc_allocates(k, lc, sh, st)
        self.havoc_ghost(sh, s.body, f"loop{k}")
        self.assume_invs(lc, sh)
        self.guard, self.mayraise = [], []
        self.cur_stmt = s.body[0]  # the test is evaluated once per iteration, i.e. inside the loop
        c = self.truth(self.ev(s.test, sh))
        outs = self.with_raises(sh, [], s)
        sb, se = sh.copy(), sh.copy()
        sb.assume(to_z3(c))
        se.assume(NOT(c))
        dec = lc.get("decreases")
        d0 = None
        if dec:
            d0 = to_z3(self.spec_value(dec, sb))
            self.emit(f"loop{k}.decreases.bounded", sb, d0 >= 0, s, kind="termination")
        after = []
        for o in self.with_touches(k, lc, sb, lambda: self.exec_block(s.body, sb)):
            if o.kind in ("fall", "continue"):
                self.check_invs(k, lc, o.st, "preserve", s)
                if dec:
                    self.emit(f"loop{k}.decreases.strict", o.st, to_z3(self.spec_value(dec, o.st)) < d0, s, kind="termination")
            elif o.kind == "break":
                after.append(o.st)
            else:
                outs.append(o)
        if s.orelse:
            for o in self.exec_block(s.orelse, se):
                if o.kind == "fall":
                    after.append(o.st)
                else:
                    outs.append(o)
        else:
            after.append(se)
        return outs + [Outcome("fall", a) for a in after]

    # ------------------------------------------------------------------ ghost statements
    def run_ghost(self, when, s, st):
        if not self.cur_ghost:
            return
        text = None
        for g in self.cur_ghost:
            if g["when"] != when:
                continue
            if text is None:
                text = ast.unparse(s)
            if not text.startswith(g["at"]):
                continue
            if "loop" in g and g["loop"] != self.enclosing_loop.get(id(s)):
                continue
            g["hits"] = g.get("hits", 0) + 1
            for cmd in g["do"]:
                self.ghost_cmd(cmd, st, s, g)

    def ghost_cmd(self, cmd, st, node, g):
        cmd = cmd.strip()
        if cmd.startswith("assert "):
            label = g.get("label", g["at"][:24])
            goal = self.spec_eval(cmd[7:], st)
            self.emit(f"ghost.assert[{label}]", st, goal, node, kind="ghost")
            st.assume(to_z3(goal))
        elif cmd.startswith("cut "):
            # proof cut: P is proved here, and from here on this path knows ONLY P (every earlier hypothesis is dropped).
            # Dropping hypotheses can only make later obligations harder, never easier: sound; keeps contexts small.
            label = g.get("label", g["at"][:24])
            goal = self.spec_eval(cmd[4:], st)
            self.emit(f"ghost.cut[{label}]", st, goal, node, kind="ghost")
            st.pc[:] = list(st.ghost.get("__defs__", ())) + [to_z3(goal)]  # (explicit definitions made by "define" stay; frontier facts live in st.ghost)
        elif cmd.startswith("assert_last "):
            # assert P proved from the last n hypotheses only (a smaller context for the solver; fewer hypotheses = sound)
            n, rest = cmd[12:].split(" ", 1)
            label = g.get("label", g["at"][:24])
            goal = self.spec_eval(rest, st)
            s2 = st.copy()
            s2.pc = st.pc[-int(n):]
            self.emit(f"ghost.assert[{label}]", s2, goal, node, kind="ghost")
            st.assume(to_z3(goal))
        elif cmd.startswith("keep "):
            # proof cut without a new obligation: from here on this path knows only its last n hypotheses (typically the
            # facts just established by the preceding ghost asserts).  Dropping hypotheses is always sound.
            n = int(cmd[5:])
            st.pc[:] = st.pc[-n:] if n > 0 else []
        elif cmd.startswith("identity "):
            # a universally valid (ring) identity: proved without any hypotheses, then assumed
            label = g.get("label", g["at"][:24])
            goal = to_z3(self.spec_eval(cmd[9:], st))
            self.obls.append(Obligation(f"{self.cur_name}#ghost.identity[{label}]", [], goal, line=getattr(node, "lineno", None), kind="ghost"))
            st.assume(goal)
        elif cmd.startswith("name "):
            # "name x, y": each listed program variable holding a scalar (Int / Bool / Real / String term) is re-bound to a
            # fresh constant defined equal to its current value (the defining equation becomes a hypothesis).  A conservative
            # extension - nothing about the program is assumed; later facts mention the short name instead of a large term,
            # and a following `keep` may drop the defining equation (dropping hypotheses is always sound).
            for v_ in [x_.strip() for x_ in cmd[5:].split(",") if x_.strip()]:
                cur = st.env.get(v_)
                if isinstance(cur, VRef) and is_leaf(to_z3(cur.ident)):
                    # a reference: its identity gets the name (same conservative extension as for a scalar)
                    c0 = z3.Const(uid(v_ + ".named"), z3.IntSort())
                    st.assume(c0 == to_z3(cur.ident))
                    st.env[v_] = VRef(cur.cls, c0)
                    continue
                if cur is None or not (is_leaf(cur) or isinstance(cur, (str, int, bool))):
                    raise ContractError(f"name: {v_!r} is not a program variable holding a scalar value")
                cur = to_z3(cur)
                c0 = z3.Const(uid(v_ + ".named"), cur.sort())
                st.assume(c0 == cur)
                st.env[v_] = c0
        elif cmd.startswith("replace "):
            # "replace x by e": x == e is proved here (obligation ghost.replace[..]); from here on the program variable x
            # denotes the value of e.  Replacing a value by an equal value changes nothing the program can observe as long as
            # the value has no identity: only scalars and tuples / records / Optionals of those are accepted (references,
            # lists, dicts and sets are refused).  Later terms are then built from e's (typically smaller, specification-level)
            # terms instead of the computed ones.
            vname, expr = cmd[8:].split(" by ", 1)
            vname = vname.strip()
            if vname not in st.env:
                raise ContractError(f"replace: {vname!r} is not a program variable")
            val = self.spec_value(expr, st)

            def plain(v_):
                if isinstance(v_, (VRec,)):
                    return all(plain(x_) for x_ in v_.fields.values())
                if isinstance(v_, VTuple) and not isinstance(v_, VHList):
                    return all(plain(x_) for x_ in v_.items)
                if isinstance(v_, VOpt):
                    return plain(v_.val)
                return v_ is None or is_conc(v_) or (is_leaf(v_) and (is_bool(v_) or is_int(v_) or is_str(v_) or v_.sort() == z3.RealSort()))
            if not (plain(val) and plain(st.env[vname])):
                raise ContractError(f"replace {vname}: only values without identity (scalars, tuples, records, Optionals of those)")
            label = g.get("label", g["at"][:24])
            goal = self.spec_eval(f"{vname} == ({expr.strip()})", st)
            self.emit(f"ghost.replace[{label}]", st, goal, node, kind="ghost")
            st.assume(to_z3(goal))
            st.env[vname] = val
            if vname in st.narrowed:
                st.narrowed = st.narrowed - {vname}
        elif cmd.startswith("let "):
            name, expr = cmd[4:].split("=", 1)
            st.ghost[name.strip()] = self.spec_value(expr, st)
        elif cmd.startswith("define "):
            # "define P(x, y) = expr": a NEW function symbol over integers (fresh at every execution of the command), defined
            # for all arguments by expr - an explicit definition, i.e. a conservative extension (nothing about the program
            # is assumed); lets invariants mention a large formula by name.  The defining axiom forall x, y. P(x, y) == expr
            # (trigger P(x, y)) is built from expr evaluated at arbitrary x, y, so that an instance of it is the very term
            # the clause text `expr` denotes for those arguments.  Definitions survive proof cuts (see "cut").
            # "define opaque P(..) = expr": the same, but the defining axiom is held back until a "reveal P" command adds it
            # to the state it is executed in (inside a "forall .. | reveal P | assert .." only for that sub-proof): the
            # solver sees the body of P only where the proof needs it.
            head, expr = cmd[7:].split("=", 1)
            opaque = head.strip().startswith("opaque ")
            if opaque:
                head = head.strip()[7:]
            name, params = head.strip().rstrip(")").split("(")
            name, params = name.strip(), [p_.strip() for p_ in params.split(",") if p_.strip()]
            # a parameter may name its sort, "L:str" (int / bool / real / str; default int): same conservative extension
            psorts = [self.sort_of(p_.split(":", 1)[1].strip()) if ":" in p_ else z3.IntSort() for p_ in params]
            params = [p_.split(":", 1)[0].strip() for p_ in params]
            s2 = st.copy()
            s2.ghost = dict(st.ghost)
            cs = [z3.Const(uid(p_), srt_) for p_, srt_ in zip(params, psorts)]
            for p_, c0 in zip(params, cs):
                s2.ghost[p_] = c0
            body = self.spec_value(expr, s2)
            if not (is_bool(body) or is_int(body) or (is_leaf(body) and body.sort() in (z3.StringSort(), z3.RealSort())) or isinstance(body, str)):
                raise ContractError(f"define {name}: the defining expression must be a Bool, an Int, a Real or a String")
            body = to_z3(body)
            f = z3.Function(uid(name), *(psorts + [body.sort()]))
            st.ghost[name] = VFunc("pyfunc", (lambda f: lambda *a: f(*[to_z3(x) for x in a]))(f), name)
            bs = [z3.Const(uid(p_ + "b"), srt_) for p_, srt_ in zip(params, psorts)]
            ax = z3.ForAll(bs, z3.substitute(f(*cs) == body, *zip(cs, bs)), patterns=[f(*bs)])
            if opaque:
                st.ghost["__opaque__"] = dict(st.ghost.get("__opaque__", {}), **{name: ax})
            else:
                st.ghost["__defs__"] = list(st.ghost.get("__defs__", ())) + [ax]
                st.assume(ax)
        elif cmd.startswith("reveal ") and "(" in cmd:
            # "reveal P(e1, e2)": the instance of P's defining axiom at the given arguments only (P(e1, e2) == body[e1, e2]) -
            # a ground fact where the quantified axiom would put the whole body under a quantifier
            pname, argtext = cmd[7:].strip().split("(", 1)
            ax = st.ghost.get("__opaque__", {}).get(pname.strip())
            if ax is None:
                raise ContractError(f"reveal: no opaque definition named {pname.strip()!r}")
            call_ = ast.parse(pname.strip() + "(" + argtext, mode="eval").body
            vals_ = [to_z3(self.spec_value(ast.unparse(a_), st)) for a_ in call_.args]
            if len(vals_) != ax.num_vars() or any(v_.sort() != ax.var_sort(k_) for k_, v_ in enumerate(vals_)):
                raise ContractError(f"reveal {pname.strip()}: wrong number or sorts of arguments")
            st.assume(z3.substitute_vars(ax.body(), *reversed(vals_)))
        elif cmd.startswith("reveal "):
            ax = st.ghost.get("__opaque__", {}).get(cmd[7:].strip())
            if ax is None:
                raise ContractError(f"reveal: no opaque definition named {cmd[7:].strip()!r}")
            st.assume(ax)
        elif cmd.startswith("use ") and " when " in cmd:
            # "use L(args) when C": the instance is used only where C holds (its preconditions are to be shown under C, its
            # conclusions are assumed under C) - e.g. the induction hypothesis at n - 1 when n > 0
            text, cond = cmd[4:].rsplit(" when ", 1)
            self.use_lemma(text, st, node, when=to_z3(self.spec_eval(cond, st)))
        elif cmd.startswith("use "):
            self.use_lemma(cmd[4:], st, node)
        elif cmd.startswith("mark "):
            # "mark M" / "summarize M as P": P is proved here, then every hypothesis added to this path since the mark is
            # dropped and P is kept instead (dropping hypotheses is always sound).  Keeps the by-products of one statement
            # (lambda terms, string facts, lemma instances) out of every later obligation once their consequence is recorded.
            mname_, _, pos_ = cmd[5:].strip().partition(" ")
            st.ghost["__mark_" + mname_] = 0 if pos_.strip() == "0" else len(st.pc)  # "mark M 0": the start of the path
        elif cmd.startswith("stash "):
            # "stash M": the quantified hypotheses added to this path since "mark M" are set aside (not visible to the obligations that
            # follow) until "unstash M" puts them back.  Hypotheses are facts about immutable values established earlier on
            # this very path, so hiding them and restoring them later is sound; it keeps facts that are needed only much
            # later (e.g. a callee's postcondition that is a precondition of the final call) from slowing every proof between.
            mname = cmd[6:].strip()
            at_ = st.ghost.get("__mark_" + mname)
            if not isinstance(at_, int) or at_ > len(st.pc):
                raise ContractError(f"stash: no valid mark {mname!r} on this path")
            from .expr import _has_quant
            # (only the quantified ones: ground facts - allocation order, path conditions - are cheap and stay)
            st.ghost["__stash_" + mname] = tuple(f_ for f_ in st.pc[at_:] if _has_quant(f_))
            st.pc[at_:] = [f_ for f_ in st.pc[at_:] if not _has_quant(f_)]
        elif cmd.startswith("unstash "):
            saved = st.ghost.get("__stash_" + cmd[8:].strip())
            if isinstance(saved, tuple):  # (nothing stashed under this name on this path: nothing to restore)
                st.pc.extend(saved)
                st.ghost["__stash_" + cmd[8:].strip()] = ()
        elif cmd.startswith("summarize "):
            mname, rest = cmd[10:].split(" as ", 1)
            at_ = st.ghost.get("__mark_" + mname.strip())
            if not isinstance(at_, int) or at_ > len(st.pc):
                raise ContractError(f"summarize: no valid mark {mname.strip()!r} on this path")
            label = g.get("label", g["at"][:24])
            goal = self.spec_eval(rest, st)
            self.emit(f"ghost.summarize[{label}]", st, goal, node, kind="ghost")
            del st.pc[at_:]
            st.assume(to_z3(goal))
        elif cmd.startswith("scoped "):
            # "scoped c1 | c2 | .. | assert P": a sub-proof.  The commands run on a copy of the state (lemma instances, auxiliary
            # asserts: each proved where it stands); of everything established there only the last plain `assert` is kept in
            # the real state.  Keeps facts that were needed once (e.g. string lemmas) out of every later obligation.
            parts = [p.strip() for p in cmd[7:].split("|")]
            s2 = st.copy()
            s2.ghost = dict(st.ghost)
            goal = None
            for p_ in parts:
                if p_.startswith("assert "):
                    goal = to_z3(self.spec_eval(p_[7:], s2))
                    self.emit(f"ghost.scoped[{g.get('label', g['at'][:24])}]", s2, goal, node, kind="ghost")
                    s2.assume(goal)
                else:
                    self.ghost_cmd(p_, s2, node, g)
            if goal is None:
                raise ContractError("scoped ghost block without a final assert")
            st.assume(goal)
        elif cmd.startswith("forall "):
            # "forall x | use L(..x..) | assert P(x)": prove P for an arbitrary x, then assume forall x. P(x)
            # several variables: "forall x, y | ..."; an assert inside is available to the later parts (proved, then assumed)
            parts = [p.strip() for p in cmd.split("|")]
            vars_ = [v.strip() for v in parts[0][7:].split(",")]
            cs = [z3.Int(uid(v)) for v in vars_]
            s2 = st.copy()
            s2.ghost = dict(st.ghost)
            for v, c0 in zip(vars_, cs):
                s2.ghost[v] = c0
            goal = None
            pat_terms = []
            for p_ in parts[1:]:
                if p_.startswith("assert "):
                    goal = to_z3(self.spec_eval(p_[7:], s2))
                    self.emit(f"ghost.forall[{g.get('label', g['at'][:24])}]", s2, goal, node, kind="ghost")
                    s2.assume(goal)
                elif p_.startswith("pats "):
                    # "pats t1; t2": instantiation hint (one multi-pattern) for the quantified fact that is exported
                    pat_terms = [to_z3(self.spec_value(t_, s2)) for t_ in p_[5:].split(";")]
                else:
                    self.ghost_cmd(p_, s2, node, g)
            bs = [z3.Int(uid(v + "b")) for v in vars_]
            if pat_terms and not any(_has_ite(t_) for t_ in pat_terms):
                pat_terms = [z3.substitute(t_, *zip(cs, bs)) for t_ in pat_terms]
                try:
                    st.assume(z3.ForAll(bs, z3.substitute(goal, *zip(cs, bs)),
                                        patterns=[z3.MultiPattern(*pat_terms) if len(pat_terms) > 1 else pat_terms[0]]))
                    return
                except z3.Z3Exception:
                    pass  # not a legal pattern: patterns are only hints
            st.assume(z3.ForAll(bs, z3.substitute(goal, *zip(cs, bs))))
        else:
            raise ContractError(f"unknown ghost command {cmd!r}")

    def use_lemma(self, text, st, node, when=None):
        call = ast.parse(text.strip(), mode="eval").body
        name = call.func.id
        lem = self.lemmas[name]
        args = [self.spec_value(ast.unparse(a), st) for a in call.args]
        s2 = st.copy()
        s2.env = dict(st.env)
        s2.env.update(st.ghost)
        for p, a in zip(lem["params"], args):
            s2.env[p] = a
        if getattr(self, "cur_name", None) == f"lemma:{name}":
            # a lemma used inside its own proof: induction.  Sound when the instance is smaller in a well-founded order - the
            # lemma names an integer measure `decreases` over its parameters; obligation: 0 <= measure(instance) < measure(self)
            if "decreases" not in lem:
                raise ContractError(f"lemma {name} is used in its own proof but declares no `decreases` measure")
            m_inst, m_self = to_z3(self.spec_value(lem["decreases"], s2)), to_z3(self.spec_value(lem["decreases"], st))
            self.emit(f"lemma[{name}].induction-measure-decreases", st, z3.And(m_inst >= 0, m_inst < m_self), node, kind="lemma-pre",
                      guard=[when] if when is not None else ())
        elif str(getattr(self, "cur_name", "")).startswith("lemma:") and self.cur_name[6:] in self._lemma_reach(name):
            raise ContractError(f"lemma {name} is used in the proof of {self.cur_name[6:]}, which its own proof depends on (circular)")
        for k, r in enumerate(lem.get("requires", [])):
            self.emit(f"lemma[{name}].requires.{k}", st, self.spec_eval(r, s2), node, kind="lemma-pre", guard=[when] if when is not None else ())
        for e in lem["ensures"]:
            st.assume(to_z3(self.spec_eval(e, s2)) if when is None else z3.Implies(when, to_z3(self.spec_eval(e, s2))))
        self.used_lemmas.add(name)

    # ------------------------------------------------------------------ top level
    def number_loops(self, fdef):
        self.loop_ordinal, self.enclosing_loop = {}, {}
        self.loop_parent = {}  # loop ordinal -> ordinal of the loop directly around it (None at top level)
        ctr = [0]

        def walk(stmts, encl):
            for s in stmts:
                self.enclosing_loop[id(s)] = encl
                if isinstance(s, (ast.For, ast.While)):
                    k = ctr[0]
                    ctr[0] += 1
                    self.loop_ordinal[id(s)] = k
                    self.loop_parent[k] = encl
                    walk(s.body, k)
                    walk(s.orelse, encl)
                elif isinstance(s, ast.If):
                    walk(s.body, encl)
                    walk(s.orelse, encl)
                elif isinstance(s, ast.Try):
                    walk(s.body, encl)
                    for h in s.handlers:
                        walk(h.body, encl)
                    walk(s.orelse, encl)
                elif isinstance(s, ast.With):
                    walk(s.body, encl)

        walk(fdef.body, None)
        return ctr[0]

    def func_hash(self, qual):
        f = self.funcs[qual]
        seg = ast.get_source_segment(self.source, f) or ""
        return hashlib.sha256(seg.encode()).hexdigest()[:16], f.lineno, f.end_lineno

    def verify(self, qual, variant=None):
        """generate all obligations of one function under its contract; returns the list"""
        cname = qual if variant is None else f"{qual}@{variant}"
        c = self.contracts[cname]
        if qual not in self.funcs:
            raise ContractError(f"function {qual} not found in {self.src_path}")
        fdef = self.funcs[qual]
        self.cur_name = cname
        self.cur_contract = c
        self.cur_line0 = fdef.lineno
        self.cur_loops = dict(getattr(c, "loops", {}))
        self.cur_locals = dict(getattr(c, "locals", {}))
        self.cur_ghost = [dict(g) for g in getattr(c, "ghost", [])]
        self.defaultdict_names = set(getattr(c, "defaultdicts", ()))
        self.used_lemmas = set()
        self.trivial = 0
        self.max_paths = getattr(c, "max_paths", 256)
        self.prune = bool(getattr(c, "prune_branches", getattr(self.sidecar, "PRUNE_BRANCHES", False)))  # per-contract opt-in
        self.heap0 = {}
        nloops = self.number_loops(fdef)
        for k in self.cur_loops:
            if not (0 <= k < nloops):
                raise ContractError(f"{cname}: sidecar names loop #{k} but the function has {nloops} loops")
        first = len(self.obls)
        if getattr(c, "stop_before", None) and (list(c.ensures) or getattr(c, "ghost_returns", None)):
            raise ContractError(f"{cname}: a prefix contract (stop_before) cannot state postconditions of the call")
        st = State()
        # parameters
        pnames = [a.arg for a in fdef.args.args]
        for p in pnames:
            if p not in c.params:
                if p in getattr(c, "defaults", {}):
                    st.env[p] = c.defaults[p]
                    continue
                raise ContractError(f"{cname}: parameter {p} has no declared shape")
            st.env[p] = self.fresh_value(self.shape(c.params[p]), p, st)
        for p in c.params:
            if p not in pnames:
                raise ContractError(f"{cname}: contract parameter {p} is not a parameter of the function")
        # ghost parameters: specification-only values the contract is stated relative to (supplied by the caller's ghost state)
        for g_, shp_ in getattr(c, "ghost_params", {}).items():
            st.env[g_] = self.fresh_value(self.shape(shp_), g_, st)
        # all declared heap fields exist at entry
        for cls, info in self.classes.items():
            if info.get("kind") == "record":
                continue
            for f in info["fields"]:
                self.heap_tree(st, cls, f)
                self.assume_heap_wf(st, cls, f)
        st.alloc = z3.Int("alloc0")
        st.assume(st.alloc >= 1)
        for p in c.params:
            self.assume_wf(st.env[p], st)
        for text in c.requires:
            st.assume(to_z3(self.spec_eval(text, st)))
        body_ = fdef.body
        if getattr(c, "start_at", None):
            # TAIL contract (counterpart of a PREFIX contract): `start_at = "<statement text prefix>"`, `start_from = "<variant>"`.
            # The function is verified from that TOP-LEVEL statement on.  The state there is over-approximated: every local named
            # in `start_locals` (name -> shape) and every ghost name in `start_ghost` is an UNKNOWN value of its shape, the heap is
            # unknown (references held in the locals are allocated objects), and of this unknown state only the clauses
            # `start_assumes` are assumed - each of which must be, literally, a clause that the prefix contract <function>@<start_from>
            # PROVES at its cut point (its stop_ensures), and that prefix must stop exactly in front of the same statement.  A local
            # the tail reads but does not declare is an unbound name (Unsupported).  No `requires` (facts about the parameters at
            # the cut must come from proved clauses too).  `old(..)` / `fresh(..)` / the frame obligations of the tail refer to the
            # state at the cut.  Such a contract describes a part of the body: it is refused at call sites (calls.call_contract).
            src_ = self.contracts.get(f"{qual}@{getattr(c, 'start_from', None)}")
            if src_ is None or getattr(src_, "stop_before", None) != c.start_at:
                raise ContractError(f"{cname}: start_from must name a prefix contract of {qual} that stops before {c.start_at!r}")
            if list(c.requires):
                raise ContractError(f"{cname}: a tail contract (start_at) takes its entry facts from the prefix's proved clauses, not from requires")
            for text in getattr(c, "start_assumes", []):
                if text not in src_.stop_ensures:
                    raise ContractError(f"{cname}: start_assumes clause {text!r} is not a stop_ensures clause of {qual}@{c.start_from}")
            at_ = [k_ for k_, s_ in enumerate(fdef.body) if ast.unparse(s_).startswith(c.start_at)]
            if len(at_) != 1:
                raise ContractError(f"{cname}: start_at must match exactly one top-level statement of {qual}")
            body_ = fdef.body[at_[0]:]
            for n_, shp_ in getattr(c, "start_locals", {}).items():
                st.env[n_] = self.fresh_value(self.shape(shp_), n_ + "@cut", st)
                self.assume_wf(st.env[n_], st)
                self.assume_dict_wf(st, st.env[n_])
                if n_ in getattr(c, "start_defaultdicts", {}):
                    # the local holds a collections.defaultdict(<factory>) (its type at the cut, like its shape): a missing-key
                    # read inserts factory()
                    if not isinstance(st.env[n_], VDict) or c.start_defaultdicts[n_] not in ("set", "list", "int"):
                        raise ContractError(f"{cname}: start_defaultdicts[{n_!r}] needs a dict-shaped local and a factory set / list / int")
                    st.env[n_].default = c.start_defaultdicts[n_]
            for n_, shp_ in getattr(c, "start_ghost", {}).items():
                st.ghost[n_] = self.fresh_value(self.shape(shp_), n_ + "@cut", st)
                self.assume_wf(st.ghost[n_], st)
            for text in getattr(c, "start_assumes", []):
                st.assume(to_z3(self.spec_eval(text, st)))
        for cmd in getattr(c, "ghost_entry", []):
            self.ghost_cmd(cmd, st, fdef, {"at": "entry", "label": "entry"})
        entry = st.copy()
        st.old = entry
        self.reach = [("entry", list(self.global_facts) + list(entry.pc))]
        outs = self.exec_block(body_, st)
        allowed = self.raises_of(c)
        nexits = 0
        for o in outs:
            if o.kind == "raise":
                if o.exc in allowed:
                    if o.exc in getattr(c, "raises_exact", ()) and allowed[o.exc] != "?":
                        # opt-in: the declared condition of this exceptional exit is proved, not only used at call sites:
                        # here "raised only when cond" (cond over the entry values of the parameters) ...
                        pr = o.st.copy()
                        pr.env = dict(o.st.env)
                        for p_ in c.params:
                            pr.env[p_] = entry.env[p_]
                        pr.old = entry
                        self.emit(f"raises.{o.exc}.only-when", pr, self.spec_eval(allowed[o.exc], pr), getattr(o, "node", None) or fdef, kind="post")
                    continue
                nd = getattr(o, "node", None)
                snippet = _snip(nd)
                self.emit(f"safe.no_{o.exc}[{snippet}]", o.st, False, nd, kind="safety")
                continue
            if o.kind not in ("return", "fall", "stop"):
                raise Unsupported(f"{o.kind} outside a loop")
            # "stop": a PREFIX contract (attribute stop_before = "<statement text prefix>") verifies the function only up to
            # that statement: what holds of the local variables there (stop_ensures) and that nothing allocated before the
            # call has been written so far.  Nothing is claimed about the statements behind it or about the returned value:
            # such a contract states no ensures and is refused at call sites (calls.call_contract).
            is_stop = o.kind == "stop"
            if any(z3.is_false(f_) for f_ in o.st.pc):
                # the statement that ends here always raises (its normal continuation carries the path condition False, e.g. a
                # call of a non-callable value): there is no such exit; the raise itself is accounted for above
                continue
            nexits += 1
            self.reach.append((f"exit{nexits}", list(self.global_facts) + list(o.st.pc)))
            res = o.value if o.kind == "return" else None
            post = o.st.copy()
            post.env = dict(o.st.env)
            for p_ in list(c.params) + list(getattr(c, "ghost_params", {})):  # parameters in postconditions denote their entry values
                post.env[p_] = entry.env[p_]
            post.env["result"] = res
            if getattr(c, "returns", None) is not None and res is not None:
                try:
                    post.env["result"] = self.coerce(res, self.shape(c.returns))
                except Unsupported:
                    pass
            post.old = entry
            for cmd in getattr(c, "ghost_exit", []) if not is_stop else []:  # ghost commands run at every normal exit (e.g. naming a callee's ghost results)
                self.ghost_cmd(cmd, post, fdef, {"at": "exit", "label": "exit"})
            for exc_ in getattr(c, "raises_exact", ()) if not is_stop else ():
                # ... and here "whenever cond, the call does not return normally" (every other exception type is an obligation
                # safe.no_<Exc>, so under cond the only possible exit is this exception)
                if allowed.get(exc_, "?") != "?":
                    self.emit(f"raises.{exc_}.whenever", post, NOT(self.spec_eval(allowed[exc_], post)), fdef, kind="post")
            elsewhere = getattr(c, "ensures_in_variant", {})
            for k, text in enumerate(getattr(c, "stop_ensures", [])) if is_stop else ():
                label = getattr(c, "stop_ensures_labels", {}).get(k, str(k))
                self.emit(f"at-stop.{label}", post, self.spec_eval(text, post), fdef, kind="post")
            for k, text in enumerate(c.ensures if not is_stop else ()):
                if k in elsewhere:
                    # this clause is proved by a second contract on the same function (its own, leaner invariants):
                    # the variant must exist, state the same clause under the same requires, and is verified with this one
                    vc = self.contracts.get(f"{qual}@{elsewhere[k]}")
                    if vc is None or text not in vc.ensures or list(vc.requires) != list(c.requires):
                        raise ContractError(f"{cname}: ensures #{k} is delegated to variant {elsewhere[k]!r}, which does not state it under the same requires")
                    continue
                label = getattr(c, "ensures_labels", {}).get(k, str(k))
                self.emit(f"ensures.{label}", post, self.spec_eval(text, post), fdef, kind="post")
            # frame
            mods = set(getattr(c, "modifies", []))
            # "Cls.f@expr": only the cell of the object denoted by expr (evaluated in the entry state) may change
            cell_mods = {}
            for m_ in mods:
                if "@" in m_:
                    fld, expr = m_.split("@", 1)
                    cell_mods.setdefault(fld, []).append(to_z3(self.spec_value(expr, entry).ident))
            for (cls, f), tree in post.heap.items():
                if f"{cls}.{f}" in mods:
                    continue
                old = entry.heap.get((cls, f))
                if old is None:
                    continue
                la, lb = leaves(tree), leaves(old)
                if all(x.eq(y) for x, y in zip(la, lb)):
                    continue
                r = z3.Int(uid("r"))
                same = AND(*[z3.Select(x, r) == z3.Select(y, r) for x, y in zip(la, lb)])
                others = [r != t for t in cell_mods.get(f"{cls}.{f}", [])]
                self.emit(f"frame.{cls}.{f}", post, z3.ForAll([r], z3.Implies(z3.And(r >= 1, r < to_z3(entry.alloc), *others), same)), fdef, kind="frame")
        for g in self.cur_ghost:
            if not g.get("hits"):
                raise ContractError(f"{cname}: ghost anchor {g['at']!r} matched no statement")
        if nexits == 0:
            raise ContractError(f"{cname}: no normal exit is reachable symbolically")
        return self.obls[first:]

    def assume_wf(self, v, st):
        """references reachable from parameters were allocated before the call"""
        if isinstance(v, VRef):
            st.assume(z3.And(to_z3(v.ident) >= 1, to_z3(v.ident) < to_z3(st.alloc)))
        elif isinstance(v, VList):
            st.assume(to_z3(v.length) >= 0)
            if v.eshape[0] == "ref":
                q = z3.Int(uid("q"))
                e = sel(v.elems, q)
                st.assume(z3.ForAll([q], z3.Implies(z3.And(q >= 0, q < to_z3(v.length)),
                                                    z3.And(to_z3(e.ident) >= 1, to_z3(e.ident) < to_z3(st.alloc)))))
        elif isinstance(v, VTuple):
            for x in v.items:
                self.assume_wf(x, st)
        elif isinstance(v, VRec):
            for x in v.fields.values():
                self.assume_wf(x, st)

    def _lemma_reach(self, name):
        """the lemmas that the proof of lemma `name` uses, transitively (syntactic: `use L(` in the proof steps)"""
        import re
        seen, todo = set(), [name]
        while todo:
            for c in self.lemmas.get(todo.pop(), {}).get("steps", []):
                for used in re.findall(r"\buse\s+(\w+)\s*\(", c):
                    if used not in seen:
                        seen.add(used)
                        todo.append(used)
        return seen

    def verify_lemma(self, name):
        """prove a sidecar lemma (pure spec-level statement) by SMT"""
        lem = self.lemmas[name]
        self.cur_name = f"lemma:{name}"
        self.cur_line0 = 0
        self.trivial = 0
        st = State()
        for p, shp in zip(lem["params"], lem.get("shapes", ["int"] * len(lem["params"]))):
            st.env[p] = self.fresh_value(self.shape(shp), p, st)
        for cls, info in self.classes.items():
            if info.get("kind") != "record":
                for f in info["fields"]:
                    self.heap_tree(st, cls, f)
        for r in lem.get("requires", []):
            st.assume(to_z3(self.spec_eval(r, st)))
        first = len(self.obls)
        # proof steps: ghost commands (let / assert / use) run in order; every assert is proved where it stands, then assumed
        for k, cmd in enumerate(lem.get("steps", [])):
            self.ghost_cmd(cmd, st, None, {"at": "lemma", "label": f"step{k}"})
        for k, e in enumerate(lem["ensures"]):
            self.emit(f"ensures.{k}", st, self.spec_eval(e, st), None, kind="lemma")
        return self.obls[first:]


_UNBOUND = object()  # marker: the name had no binding (st_Assign, exceptional outcomes)


class VEmptyDict:
    def __init__(self, default=None):
        self.default = default


class VEnumSet:
    def __init__(self, member, kshape):
        self.member, self.kshape = member, kshape


class _ExtHandle:
    def __init__(self, key):
        self.key = key
        self.__qualname__ = key.split(".", 1)[1]
        self.__module__ = key.split(".", 1)[0]

    def __call__(self, *a, **k):
        raise RuntimeError("external handle")


def VEnumAttr(engine, sym, name):
    members = list(sym.cls)
    key = to_z3(sym.key)
    res = engine.from_py(getattr(members[-1], name))
    for m in reversed(members[:-1]):
        k = m.name if sym.by == "name" else m.value
        res = engine.merge(key == k, engine.from_py(getattr(m, name)), res)
    return res


def _same_list(a, b):
    """the two list values have the same length and the same elements (references: the same objects)"""
    q = z3.Int(uid("q"))
    ea, eb = leaves(sel(a.elems, q)), leaves(sel(b.elems, q))
    n = to_z3(a.length)
    return z3.And(n == to_z3(b.length), z3.ForAll([q], z3.Implies(z3.And(q >= 0, q < n), AND(*[x == y for x, y in zip(ea, eb)]))))


def _has_ite(e, seen=None):
    seen = set() if seen is None else seen
    if e.get_id() in seen:
        return False
    seen.add(e.get_id())
    if z3.is_app(e) and e.decl().kind() == z3.Z3_OP_ITE:
        return True
    return any(_has_ite(c, seen) for c in e.children())


def _as_load(t):
    import copy
    t2 = copy.deepcopy(t)
    for n in ast.walk(t2):
        if hasattr(n, "ctx"):
            n.ctx = ast.Load()
    return t2


def _snip(nd):
    if nd is None:
        return "?"
    try:
        return ast.unparse(nd).replace("\n", " ")[:60]
    except Exception:
        return "?"
