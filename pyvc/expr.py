"""Expression evaluation (mixin of Engine): Python expression AST -> symbolic value trees."""
from __future__ import annotations

import ast
import enum
import types
from fractions import Fraction

import z3

from .values import (BASE_SORTS, Unsupported, VChar, VConc, VDict, VFilter, VFunc, VHList, VList, VOpt, VRange, VRec, VRef, VSet,
                     VTuple, fresh, is_conc, is_leaf, ite_tree, key_sorts, key_terms, sel, shape_of, sto, tmap, to_z3,
                     tzip, uid)

from .values import leaves

I = z3.IntSort()


def zint(v):
    return to_z3(v)


def is_int(v):
    return (isinstance(v, int) and not isinstance(v, bool)) or (is_leaf(v) and v.sort() == z3.IntSort())


def is_real(v):
    return isinstance(v, (float, Fraction)) or (is_leaf(v) and v.sort() == z3.RealSort())


def is_bool(v):
    return isinstance(v, bool) or (is_leaf(v) and v.sort() == z3.BoolSort())


def is_str(v):
    return isinstance(v, str) or (is_leaf(v) and v.sort() == z3.StringSort())


def AND(*xs):
    xs = [to_z3(x) for x in xs]
    xs = [x for x in xs if not z3.is_true(x)]
    if any(z3.is_false(x) for x in xs):
        return z3.BoolVal(False)
    if not xs:
        return z3.BoolVal(True)
    return xs[0] if len(xs) == 1 else z3.And(*xs)


def OR(*xs):
    xs = [to_z3(x) for x in xs]
    xs = [x for x in xs if not z3.is_false(x)]
    if any(z3.is_true(x) for x in xs):
        return z3.BoolVal(True)
    if not xs:
        return z3.BoolVal(False)
    return xs[0] if len(xs) == 1 else z3.Or(*xs)


def NOT(x):
    x = to_z3(x)
    if z3.is_true(x):
        return z3.BoolVal(False)
    if z3.is_false(x):
        return z3.BoolVal(True)
    return z3.Not(x)


def conc_bool(x):
    """python bool if x is a decided constant else None"""
    if isinstance(x, bool):
        return x
    if is_leaf(x):
        if z3.is_true(x):
            return True
        if z3.is_false(x):
            return False
    return None


class ExprMixin:
    # ------------------------------------------------------------------ raising
    def may_raise(self, cond, exc, node=None):
        """record that evaluation raises `exc` when `cond` (under the current guard)"""
        if self.spec:
            return
        c = AND(*self.guard, cond)
        if z3.is_false(c):
            return
        self.mayraise.append((c, exc, node))

    def decided(self, st, c):
        """True/False if the path condition entails c / not c (quantifier-free quick check), else None.
        Used to prune branches; relies on the solver's `unsat` exactly as obligations do."""
        if not self.prune:
            return None
        c = to_z3(c)
        facts = [f for f in list(self.global_facts) + list(st.pc) + [to_z3(g) for g in self.guard] if not _has_quant(f)]
        if _has_quant(c) or len(facts) > 400:
            return None
        for val, goal in ((True, z3.Not(c)), (False, c)):
            s = z3.Solver()
            s.set("timeout", 300)
            s.add(*facts)
            s.add(goal)
            if s.check() == z3.unsat:
                return val
        return None

    # ------------------------------------------------------------------ truthiness / equality
    def truth(self, v):
        if v is None:
            return False
        if isinstance(v, bool):
            return v
        if isinstance(v, int):
            return v != 0
        if isinstance(v, str):
            return len(v) > 0
        if isinstance(v, (float, Fraction)):
            return v != 0
        if is_leaf(v):
            s = v.sort()
            if s == z3.BoolSort():
                return v
            if s == z3.IntSort() or s == z3.RealSort():
                return v != 0
            if s == z3.StringSort():
                return z3.Length(v) > 0
        if isinstance(v, VList):
            return to_z3(v.length) > 0 if not isinstance(v.length, int) else v.length > 0
        if isinstance(v, VTuple):
            return len(v.items) > 0
        if isinstance(v, VRef) and self.classes.get(v.cls, {}).get("boxed_list"):
            raise Unsupported("truth value of a list object (its emptiness lives on the heap)")
        if isinstance(v, VRef) and self.classes.get(v.cls, {}).get("boxed_valueset"):
            raise Unsupported("truth value of a set object (its emptiness lives on the heap)")
        if isinstance(v, (VRef, VRec)) and any(getattr(self.externals.get(f"{v.cls}.{d_}"), "pure", False) for d_ in ("__bool__", "__len__")):
            # truth protocol for an object of a third-party class whose __bool__ / __len__ the sidecar models (assumed external,
            # pure): bool(x) is x.__bool__() if the class has one, else x.__len__() != 0
            d_ = "__bool__" if getattr(self.externals.get(f"{v.cls}.__bool__"), "pure", False) else "__len__"
            self.used_externals.add(f"{v.cls}.{d_}")
            r_ = self.externals[f"{v.cls}.{d_}"](self, [v], {}, None, None)
            return r_ if d_ == "__bool__" else to_z3(r_) != 0
        if isinstance(v, (VRef, VRec, VFunc, VChar)):
            return True
        if isinstance(v, VOpt):
            return AND(NOT(v.isnone), self.truth(v.val))
        if isinstance(v, VDict):
            if v.order is not None:
                return self.truth(v.order)
            k = [z3.Const(uid("k"), s) for s in key_sorts(v.kshape)]
            return z3.Exists(k, sel(v.dom, *k))
        if isinstance(v, VSet):
            k = [z3.Const(uid("k"), s) for s in key_sorts(v.kshape)]
            return z3.Exists(k, sel(v.mem, *k))
        if isinstance(v, VConc):
            return bool(v.obj)
        raise Unsupported(f"truthiness of {type(v).__name__}")

    def eq(self, a, b):
        if a is None or b is None:
            if isinstance(a, VOpt):
                return a.isnone
            if isinstance(b, VOpt):
                return b.isnone
            return a is None and b is None
        if is_conc(a) and is_conc(b):
            return a == b
        if isinstance(a, VVec) and isinstance(b, VVec):
            return AND(*[x == y for x, y in zip(a.c, b.c)])
        if isinstance(a, VChar) or isinstance(b, VChar):
            if not isinstance(a, VChar):
                a, b = b, a
            if isinstance(b, VChar):
                return to_z3(a.code) == to_z3(b.code)
            if isinstance(b, str):
                return to_z3(a.code) == ord(b) if len(b) == 1 else False
            if is_leaf(b) and b.sort() == z3.StringSort():
                # a character equals a string iff the string has length one and the same code point
                codes = ite_const_map(b, lambda t: ord(t) if len(t) == 1 else -2)
                if codes is not None:
                    return to_z3(a.code) == codes
                return AND(z3.Length(b) == 1, to_z3(a.code) == z3.StrToCode(b))
            return False
        if isinstance(a, VConc) and isinstance(b, VConc):
            return a.obj == b.obj
        if isinstance(a, VConc) or isinstance(b, VConc):
            ca, cb = (a, b) if isinstance(a, VConc) else (b, a)
            if isinstance(ca.obj, enum.Enum):
                # a concrete Enum member against a non-concrete value (from_py keeps a member as it is: no recursion here)
                if getattr(self.sidecar, "ENUM_ORDINAL_EQ", False) and is_leaf(cb) and cb.sort() == z3.IntSort():
                    # same opt-in as for a symbolic member below: the Int-sorted value compared with a member is enum-shaped
                    # (declared `enum[Cls]` = ordinal in definition order), so `x == Cls.MEMBER` compares the two ordinals
                    return cb == self.enum_ord(ca.obj)
                raise Unsupported(f"equality of the Enum member {ca.obj} and a {type(cb).__name__}")
            return self.eq(self.from_py(ca.obj), cb)
        if isinstance(a, VOpt) or isinstance(b, VOpt):
            if not isinstance(a, VOpt):
                a, b = b, a
            if isinstance(b, VOpt):
                return OR(AND(a.isnone, b.isnone), AND(NOT(a.isnone), NOT(b.isnone), self.eq(a.val, b.val)))
            return AND(NOT(a.isnone), self.eq(a.val, b))
        if isinstance(a, VTuple) and isinstance(b, VTuple):
            if len(a.items) != len(b.items) or isinstance(a, VHList) != isinstance(b, VHList):
                return False  # (a list never equals a tuple)
            return AND(*[self.eq(x, y) for x, y in zip(a.items, b.items)])
        if isinstance(a, VList) and isinstance(b, VList):
            q = z3.Int(uid("q"))
            ea, eb = sel(a.elems, q), sel(b.elems, q)
            return AND(to_z3(a.length) == to_z3(b.length),
                       z3.ForAll([q], z3.Implies(z3.And(q >= 0, q < to_z3(a.length)), to_z3(self.eq(ea, eb)))))
        if isinstance(a, VRef) and isinstance(b, VRef):
            if not self.spec and (self.classes.get(a.cls, {}).get("boxed_list") or self.classes.get(b.cls, {}).get("boxed_list")):
                raise Unsupported("== of list objects (structural in Python; in specs == on references is identity)")
            eqm = self.class_eq(a, b)
            if eqm is not None:
                return eqm
            return to_z3(a.ident) == to_z3(b.ident)
        if isinstance(a, VRec) and isinstance(b, VRec):
            if a.cls != b.cls:
                return False
            keys = self.rec_eq_fields(a.cls)
            return AND(*[self.eq(a.fields[k], b.fields[k]) for k in keys])
        if isinstance(a, VSet) and isinstance(b, VSet):
            return a.mem == b.mem
        if (is_leaf(a) or is_conc(a)) and (is_leaf(b) or is_conc(b)):
            za, zb = to_z3(a), to_z3(b)
            if za.sort() != zb.sort():
                if {za.sort(), zb.sort()} == {z3.IntSort(), z3.RealSort()}:
                    return to_z3(a, "real") == to_z3(b, "real")
                return False  # e.g. str == int in Python is False
            return za == zb
        if getattr(self.sidecar, "ENUM_ORDINAL_EQ", False) and (isinstance(a, VEnumSym) or isinstance(b, VEnumSym)):
            # opt-in of the sidecar (a modelling declaration listed by the property): every Int-sorted value that the code under
            # contract compares with an Enum member is an enum-shaped value (field declared `enum[Cls]` = the member's ordinal
            # in definition order), so `field == member` compares the two ordinals.  Without the opt-in nothing changes.
            sym, other = (a, b) if isinstance(a, VEnumSym) else (b, a)
            if is_leaf(other) and other.sort() == z3.IntSort():
                return to_z3(self.coerce(sym, ("enum", sym.cls.__name__))) == other
        if type(a) is not type(b):
            return False
        raise Unsupported(f"equality of {type(a).__name__}")

    def class_eq(self, a, b):
        """`==` of two references of a class whose sidecar entry names an `eq` relation (a UFUNS predicate over the two
        references standing for a user-defined / dataclass-generated __eq__); None = default object identity"""
        if a.cls == b.cls:
            fn = self.classes.get(a.cls, {}).get("eq")
            if fn is not None:
                return self.spec_env[fn].payload(a, b)
        return None

    def rec_eq_fields(self, cls):
        return list(self.classes[cls]["fields"].keys()) if cls in self.classes else []

    # ------------------------------------------------------------------ conversion of real-module constants
    def from_py(self, obj):
        if obj is None or isinstance(obj, (bool, int, str)):
            return obj
        if isinstance(obj, float):
            return Fraction(str(obj))
        if isinstance(obj, enum.Enum):
            return VConc(obj)
        if isinstance(obj, tuple):
            return VTuple([self.from_py(x) for x in obj])
        if isinstance(obj, list) and all(isinstance(x, (int, str, bool)) for x in obj) and len(obj) <= 64:
            return self.list_literal([self.from_py(x) for x in obj])
        return VConc(obj)

    def list_literal(self, items, eshape=None):
        if not items:
            if eshape is None:
                return VList(0, None, None)
            return VList(0, fresh(eshape, uid("empty"), (I,)), eshape)
        eshape = eshape or shape_of(items[0])
        arr = fresh(eshape, uid("lit"), (I,))
        for k, x in enumerate(items):
            arr = sto(arr, [z3.IntVal(k)], self.coerce(x, eshape))
        return VList(len(items), arr, eshape)

    def coerce(self, v, shape):
        """make v structurally fit `shape` (None -> VOpt, int -> real, VConc enum -> ordinal ...)"""
        k = shape[0]
        if k == "opt":
            if v is None:
                return VOpt(True, self.default_of(shape[1]))
            if isinstance(v, VOpt):
                if shape[1][0] == "enum" and isinstance(v.val, (VConc, VEnumSym)):
                    return VOpt(v.isnone, self.coerce(v.val, shape[1]))  # Optional enum member not yet encoded: its ordinal
                return v
            return VOpt(False, self.coerce(v, shape[1]))
        if k == "real" and (is_int(v) or isinstance(v, (float, Fraction))):
            return to_z3(v, "real")
        if k == "char" and is_leaf(v) and v.sort() == z3.StringSort():
            # a string known to have exactly one character, as its code point
            # (the empty string - an out-of-range position of a constant table in a specification - maps to code -1, no character)
            codes = ite_const_map(v, lambda t: ord(t) if len(t) == 1 else (-1 if t == "" else None))
            if codes is not None:
                return VChar(codes)
            raise Unsupported("a symbolic string stored where a single character is declared")
        if k == "urec":
            # rec[A,B,..] (values.urec_as_tuple): a record of class C is injected as (position of C, default records .., the
            # record itself at C's place, .. default records); a record of a class that is not listed is refused
            if isinstance(v, VRec):
                if v.cls not in shape[1]:
                    raise Unsupported(f"a record of class {v.cls} stored where rec[{','.join(shape[1])}] is declared")
                return VTuple([shape[1].index(v.cls)] + [v if c_ == v.cls else self.default_of(("rec", c_)) for c_ in shape[1]])
            if isinstance(v, VTuple) and not isinstance(v, VHList) and len(v.items) == len(shape[1]) + 1 \
                    and all(isinstance(x_, VRec) and x_.cls == c_ for x_, c_ in zip(v.items[1:], shape[1])):
                return v  # already in the injected form
            raise Unsupported(f"a value of kind {type(v).__name__} stored where rec[{','.join(shape[1])}] is declared")
        if k == "tuple" and isinstance(v, VTuple):
            return VTuple([self.coerce(x, s) for x, s in zip(v.items, shape[1])])
        if k == "hlist" and isinstance(v, VHList) and len(v.items) == len(shape[1]):
            return VHList([self.coerce(x, s) for x, s in zip(v.items, shape[1])])
        if k == "enum" and isinstance(shape[1], tuple) and isinstance(v, (VConc, VEnumSym)):
            # enum[A,B,..]: a member of one of several Enum classes of the module under verification is encoded by its
            # position in the concatenation of the classes' member lists (injective over the union: the offset of the
            # member's own class plus its ordinal there); a member of a class that is not listed is refused
            cls = v.cls if isinstance(v, VEnumSym) else type(v.obj)
            off = 0
            for nm in shape[1]:
                c_ = getattr(self.realmod, nm, None)
                if not (isinstance(c_, type) and issubclass(c_, enum.Enum)):
                    raise Unsupported(f"enum[..]: {nm} is not an Enum class of the module under verification")
                if c_ is cls:
                    inner = self.coerce(v, ("enum", nm))
                    return inner + off if isinstance(inner, int) else to_z3(inner) + off
                off += len(list(c_))
            raise Unsupported(f"a member of {getattr(cls, '__name__', cls)} stored where enum[{','.join(shape[1])}] is declared")
        if k == "enum" and isinstance(v, VConc):
            return self.enum_ord(v.obj)
        if k == "enum" and isinstance(v, VEnumSym):
            # member given by a symbolic name/value (Enum[name] / Enum(value), membership already checked there): its
            # ordinal in definition order, the same encoding as for a concrete member
            members = list(v.cls)
            res = z3.IntVal(len(members) - 1)
            for pos in range(len(members) - 2, -1, -1):
                mk = members[pos].name if v.by == "name" else members[pos].value
                res = z3.If(to_z3(v.key) == to_z3(mk), z3.IntVal(pos), res)
            return res
        if k == "char" and isinstance(v, str) and len(v) == 1:
            return VChar(ord(v))
        if k == "list" and isinstance(v, str) and shape[1] == ("char",):
            return self.list_literal([VChar(ord(ch)) for ch in v], ("char",))
        if k == "list" and type(v).__name__ == "VJoined":
            return v.lst
        if k == "list" and isinstance(v, VList) and v.elems is None:
            return self.default_of(shape)  # the untyped literal [] as the empty list of the declared element shape
        if k == "dict" and type(v).__name__ == "VEmptyDict":
            return self.empty_of(shape, v)  # the literal {} as the empty dict of the declared shape
        if k == "set" and type(v).__name__ == "VEmptySet":
            return self.default_of(shape)  # set() as the empty set of the declared element shape
        return v

    def default_of(self, shape):
        k = shape[0]
        if k == "urec":
            from .values import urec_as_tuple
            return self.default_of(urec_as_tuple(shape))
        if k == "rec" and shape[1] in self.classes:
            return VRec(shape[1], {f: self.default_of(self.shape(s_)) for f, s_ in self.classes[shape[1]]["fields"].items()})
        if k == "int" or k == "enum":
            return 0
        if k == "bool":
            return False
        if k == "real":
            return Fraction(0)
        if k == "str":
            return ""
        if k == "char":
            return VChar(0)
        if k == "tuple":
            return VTuple([self.default_of(s) for s in shape[1]])
        if k == "ref":
            return VRef(shape[1], 0)
        if k == "opt":
            return VOpt(True, self.default_of(shape[1]))
        if k == "list":
            return VList(0, fresh(shape[1], uid("dflt"), (I,)), shape[1])
        if k == "set":
            ks = key_sorts(shape[1])
            arr = z3.BoolVal(False)
            for s in reversed(ks):
                arr = z3.K(s, arr)
            return VSet(shape[1], arr)
        raise Unsupported(f"default of {shape}")

    def enum_ord(self, member):
        return list(type(member)).index(member)

    # ------------------------------------------------------------------ main dispatcher
    def ev(self, node, st):
        m = getattr(self, "ev_" + type(node).__name__, None)
        if m is None:
            raise Unsupported(f"expression {type(node).__name__} at line {getattr(node, 'lineno', '?')}")
        return m(node, st)

    def ev_Constant(self, node, st):
        v = node.value
        if isinstance(v, float):
            return Fraction(str(v))
        if v is None or isinstance(v, (bool, int, str)):
            return v
        raise Unsupported(f"constant {v!r}")

    def ev_Name(self, node, st):
        n = node.id
        if n in st.env:
            return st.env[n]
        if n in st.ghost:
            return st.ghost[n]
        if self.spec or n in self.spec_names:
            if n in self.spec_env:
                return self.spec_env[n]
        if n in self.builtins:
            return VFunc("builtin", n, n)
        if n in self.toplevel_funcs:
            return VFunc("function", n, n)
        if n in self.classes:
            return VFunc("class", n, n)
        if hasattr(self.realmod, n):
            if isinstance(getattr(self.realmod, n), (dict, list, set, bytearray)) and n in self.mutated_module_globals():
                # a module-level container that some function of the module writes (a cache, a registry): its value when the
                # function under contract runs is NOT its import-time value - hidden state, outside the engine's subset
                raise Unsupported(f"module-level mutable state {n}: the module writes it in a function body, so its value at call time is unknown")
            return self.from_py(getattr(self.realmod, n))
        if f"builtins.{n}" in self.externals:
            # a builtin (open, print ...) whose assumed contract the sidecar supplies as an external (trusted base)
            from .engine import _ExtHandle
            return VConc(_ExtHandle(f"builtins.{n}"))
        raise Unsupported(f"unbound name {n} at line {node.lineno}")

    def mutated_module_globals(self):
        """names bound at module level that some function body of the module mutates in place or rebinds: item / attribute
        store or delete through the name, augmented assignment, a mutating method call on it, a `global` declaration
        (syntactic; a same-named local of another function counts too - that only widens the refusal)"""
        cache = self.__dict__.get("_mutated_globals")
        if cache is None:
            from .calls import MUTATING
            top = set()
            for n_ in self.tree.body:
                for t_ in (n_.targets if isinstance(n_, ast.Assign) else [n_.target] if isinstance(n_, (ast.AnnAssign, ast.AugAssign)) else []):
                    if isinstance(t_, ast.Name):
                        top.add(t_.id)
            cache = set()

            def base_name(t_):
                while isinstance(t_, (ast.Subscript, ast.Attribute)):
                    t_ = t_.value
                return t_.id if isinstance(t_, ast.Name) else None

            for f_ in ast.walk(self.tree):
                if not isinstance(f_, (ast.FunctionDef, ast.AsyncFunctionDef)):
                    continue
                for n_ in ast.walk(f_):
                    if isinstance(n_, ast.Global):
                        cache.update(n_.names)
                    elif isinstance(n_, (ast.Assign, ast.AugAssign, ast.AnnAssign, ast.Delete)):
                        ts_ = n_.targets if isinstance(n_, (ast.Assign, ast.Delete)) else [n_.target]
                        for t_ in ts_:
                            if isinstance(t_, (ast.Subscript, ast.Attribute)) or isinstance(n_, ast.AugAssign):
                                cache.add(base_name(t_))
                    elif isinstance(n_, ast.Call) and isinstance(n_.func, ast.Attribute) and n_.func.attr in MUTATING | {"popitem"}:
                        cache.add(base_name(n_.func.value))
            cache = {x for x in cache if x in top}
            self._mutated_globals = cache
        return cache

    def ev_Tuple(self, node, st):
        return VTuple([self.ev(e, st) for e in node.elts])

    def ev_List(self, node, st):
        items = [self.ev(e, st) for e in node.elts]
        if len(items) > 1:
            try:
                shapes = [shape_of(x) for x in items]
            except Unsupported:
                shapes = None
            if shapes is not None and any(sh != shapes[0] for sh in shapes[1:]) and not all(sh in (("int",), ("real",)) for sh in shapes):
                return VHList(items)  # elements of different shapes: fixed-length heterogeneous list
        return self.list_literal(items)

    def ev_Dict(self, node, st):
        if node.keys:
            raise Unsupported("non-empty dict literal")
        from .engine import VEmptyDict
        return VEmptyDict()  # gets its shape from the contract's `locals` table at the assignment

    def ev_JoinedStr(self, node, st):
        parts = []
        for p in node.values:
            if isinstance(p, ast.Constant):
                parts.append(p.value)
            else:
                if p.conversion != -1:
                    raise Unsupported("f-string conversion (!r / !s / !a)")
                if p.format_spec is not None:
                    parts.append(self.format_value(self.ev(p.value, st), p.format_spec, node, st))
                    continue
                v_ = self.ev(p.value, st)
                if isinstance(v_, (VRef, VRec)):
                    # f"{x}" == format(x, "") == str(x) for an object whose class defines no __format__: through the
                    # sidecar's assumed external Cls.__str__ (trusted base, see CallMixin.conv_dunder); refused without one
                    r_ = self.conv_dunder("__str__", v_, node, st)
                    if r_ is self._NO_CONV:
                        raise Unsupported(f"f-string of a {v_.cls} object (no assumed contract {v_.cls}.__str__ in the sidecar)")
                    parts.append(r_)
                    continue
                if is_real(v_) and not is_int(v_) and "builtins.format" in self.externals:
                    # f"{x}" of a float == format(x, ""): the sidecar's assumed contract builtins.format (value, "")
                    self.used_externals.add("builtins.format")
                    parts.append(self.externals["builtins.format"](self, [v_, ""], {}, node, st))
                    continue
                parts.append(self.to_str(v_))
        return self.concat_str(parts)

    def format_value(self, v, spec_node, node, st):
        """f"{v:spec}" == format(v, spec) for a constant spec.  Built in: the empty spec (str(v)) and `<N` / `>N` of a str
        or an int (not bool): format(v, '>N') == str(v).rjust(N), '<N' == str(v).ljust(N) (blank fill, no sign-aware
        alignment involved).  Every other spec goes to the sidecar's assumed contract EXTERNALS['builtins.format']
        (value, spec string) - trusted base, listed by the property - or is refused."""
        import re
        if not (isinstance(spec_node, ast.JoinedStr) and all(isinstance(x, ast.Constant) and isinstance(x.value, str) for x in spec_node.values)):
            raise Unsupported("f-string with a computed format spec")
        spec = "".join(x.value for x in spec_node.values)
        plain = is_str(v) or (is_int(v) and not isinstance(v, bool))
        if spec == "" and plain:
            return self.to_str(v)
        m = re.fullmatch(r"([<>])([1-9][0-9]{0,2})", spec)
        if m and plain:
            return self.str_pad(to_z3(self.to_str(v)), int(m.group(2)), left=(m.group(1) == ">"))
        ext = self.externals.get("builtins.format")
        if ext is None:
            raise Unsupported(f"f-string format spec {spec!r} (no assumed contract builtins.format in the sidecar)")
        self.used_externals.add("builtins.format")
        return ext(self, [v, spec], {}, node, st)

    def to_str(self, v):
        if is_str(v):
            return v
        if isinstance(v, int) and not isinstance(v, bool):
            return str(v)
        if is_int(v):
            return z3.If(v >= 0, z3.IntToStr(v), z3.Concat(z3.StringVal("-"), z3.IntToStr(-v)))
        if isinstance(v, Fraction) and not self.spec:
            # text of a concrete float (floats are kept as exact fractions; Python's shortest-repr digits of the rounded binary
            # value are not modelled): an UNKNOWN string - nothing is assumed about it, not even that two conversions agree
            return z3.String(uid("float_text"))
        raise Unsupported(f"str() of {v!r}")

    def concat_str(self, parts):
        out = []
        for p in parts:
            if isinstance(p, str) and out and isinstance(out[-1], str):
                out[-1] += p
            else:
                out.append(p)
        out = [p for p in out if not (isinstance(p, str) and p == "")]
        if not out:
            return ""
        if len(out) == 1:
            return out[0]
        return z3.Concat(*[to_z3(p) for p in out])

    def ev_IfExp(self, node, st):
        c = self.truth(self.ev(node.test, st))
        cb = conc_bool(c)
        if cb is None:
            cb = self.decided(st, c)
        if cb is True:
            return self.ev(node.body, st)
        if cb is False:
            return self.ev(node.orelse, st)
        self.guard.append(to_z3(c))
        a = self.ev(node.body, st)
        self.guard[-1] = NOT(c)
        b = self.ev(node.orelse, st)
        self.guard.pop()
        return self.merge(c, a, b)

    def merge(self, c, a, b):
        if a is None and not isinstance(b, VOpt) and b is not None:
            return VOpt(to_z3(c), b)
        if b is None and not isinstance(a, VOpt) and a is not None:
            return VOpt(NOT(c), a)
        if isinstance(a, VConc) and isinstance(b, VConc) and isinstance(a.obj, enum.Enum):
            return VEnumIte(self, c, a, b)
        if isinstance(b, VOpt) and not isinstance(a, VOpt):
            # one side already Optional: the other side (a plain value or None) as an Optional of the same payload shape
            a = VOpt(True, b.val) if a is None else VOpt(False, a)
        elif isinstance(a, VOpt) and not isinstance(b, VOpt):
            b = VOpt(True, a.val) if b is None else VOpt(False, b)
        # `s if c else set()`: the literal empty set takes the element shape of the other side
        if type(a).__name__ == "VEmptySet" and isinstance(b, VSet):
            a = self.default_of(("set", b.kshape))
        elif type(b).__name__ == "VEmptySet" and isinstance(a, VSet):
            b = self.default_of(("set", a.kshape))
        if isinstance(a, (VConc, VChoice)) and isinstance(b, (VConc, VChoice)):
            # two opaque concrete objects of the real module (e.g. the inner dicts of a constant table of tables looked up
            # with a symbolic key): kept as a guarded choice; a method call on it is made on each alternative (call_method)
            if isinstance(a, VConc) and isinstance(b, VConc) and a.obj is b.obj:
                return a
            return VChoice(to_z3(c), a, b)
        return ite_tree(c, a, b)

    def ev_BoolOp(self, node, st):
        isand = isinstance(node.op, ast.And)
        vals = []
        pushed = 0
        try:
            for e in node.values:
                v = self.ev(e, st)
                vals.append(v)
                t = self.truth(v)
                cb = conc_bool(t)
                if (cb is False and isand) or (cb is True and not isand):
                    break
                self.guard.append(to_z3(t) if isand else NOT(t))
                pushed += 1
        finally:
            for _ in range(pushed):
                self.guard.pop()
        if all(is_bool(v) for v in vals):
            return (AND if isand else OR)(*vals)
        # value-returning and/or: fold from the right
        res = vals[-1]
        for v in reversed(vals[:-1]):
            t = self.truth(v)
            if not isand and isinstance(v, VOpt) and res is not None and not isinstance(res, VOpt):
                v = v.val  # `x or d` (d never None) yields x only when x is truthy, hence not None: its payload
            res = self.merge(t, res, v) if isand else self.merge(t, v, res)
        return res

    def ev_cond(self, node, st):
        """truth value of an expression that is only tested (the test of an `if`): for `a and b` / `a or b` / `not a` the truth
        values of the operands are combined directly, without building the VALUE of the expression; short-circuit guards as in
        ev_BoolOp.  Same truth value as truth(ev(node)) wherever that is defined."""
        if isinstance(node, ast.BoolOp):
            isand = isinstance(node.op, ast.And)
            ts, pushed = [], 0
            try:
                for e in node.values:
                    t = self.ev_cond(e, st)
                    ts.append(t)
                    cb = conc_bool(t)
                    if (cb is False and isand) or (cb is True and not isand):
                        break
                    self.guard.append(to_z3(t) if isand else NOT(t))
                    pushed += 1
            finally:
                for _ in range(pushed):
                    self.guard.pop()
            return (AND if isand else OR)(*ts)
        if isinstance(node, ast.UnaryOp) and isinstance(node.op, ast.Not):
            t = self.ev_cond(node.operand, st)
            return (not t) if isinstance(t, bool) else NOT(t)
        return self.truth(self.ev(node, st))

    def ev_UnaryOp(self, node, st):
        v = self.ev(node.operand, st)
        if isinstance(node.op, ast.Not):
            t = self.truth(v)
            return (not t) if isinstance(t, bool) else NOT(t)
        if isinstance(node.op, ast.USub):
            if isinstance(v, VVec):
                return VVec([-c for c in v.c])
            return -v if is_conc(v) else -to_z3(v)
        if isinstance(node.op, ast.UAdd):
            return v
        raise Unsupported("unary op")

    def ev_BinOp(self, node, st):
        a, b = self.ev(node.left, st), self.ev(node.right, st)
        return self.binop(node.op, a, b, node, st)

    _BIN_DUNDER = {ast.Add: ("__add__", "__radd__"), ast.Sub: ("__sub__", "__rsub__"), ast.Mult: ("__mul__", "__rmul__")}
    _CMP_DUNDER = {ast.Eq: ("__eq__", "__eq__"), ast.NotEq: ("__ne__", "__ne__"), ast.Lt: ("__lt__", "__gt__"),
                   ast.LtE: ("__le__", "__ge__"), ast.Gt: ("__gt__", "__lt__"), ast.GtE: ("__ge__", "__le__")}
    _NO_DUNDER = object()

    def op_dunder(self, names, a, b, node, st):
        """Python's operator protocol for an operand that is an object / record of a class whose special method the sidecar
        supplies as an assumed external `Cls.__op__` (value classes of third-party libraries): a.__op__(b); when a is a plain
        number (whose own method returns NotImplemented for a foreign operand) the reflected b.__rop__(a).
        _NO_DUNDER = no such method is declared (the caller goes on as before)"""
        if names is None or self.spec:
            return self._NO_DUNDER
        cands = [(a, b, names[0])] if isinstance(a, (VRef, VRec)) else ([(b, a, names[1])] if is_int(a) or is_real(a) else [])
        for recv, other, nm in cands:
            if isinstance(recv, (VRef, VRec)):
                ext = self.externals.get(f"{recv.cls}.{nm}")
                if ext is not None:
                    self.used_externals.add(f"{recv.cls}.{nm}")
                    return ext(self, [recv, other], {}, node, st)
        return self._NO_DUNDER

    def binop(self, op, a, b, node=None, st=None):
        if not self.spec and (isinstance(a, VOpt) or isinstance(b, VOpt)):
            # arithmetic on an Optional: TypeError exactly when it is None, otherwise the operation on its payload
            # (found by tools/xcheck.py: the TypeError used to be unconditional, which cut off the normal path)
            if isinstance(a, VOpt):
                self.may_raise(a.isnone, "TypeError", node)
                a = a.val
            if isinstance(b, VOpt):
                self.may_raise(b.isnone, "TypeError", node)
                b = b.val
        if isinstance(a, VVec) or isinstance(b, VVec):
            return self.vec_binop(op, a, b, node)
        if isinstance(a, (VRef, VRec)) or isinstance(b, (VRef, VRec)):
            r = self.op_dunder(self._BIN_DUNDER.get(type(op)), a, b, node, st)
            if r is not self._NO_DUNDER:
                return r
        if is_conc(a) and is_conc(b) and a is not None and b is not None and not isinstance(op, ast.Div):
            try:
                return {ast.Add: lambda: a + b, ast.Sub: lambda: a - b, ast.Mult: lambda: a * b,
                        ast.FloorDiv: lambda: a // b, ast.Mod: lambda: a % b, ast.Pow: lambda: a ** b}[type(op)]()
            except KeyError:
                raise Unsupported("binop")
        if isinstance(op, ast.Add):
            if is_str(a) and is_str(b):
                return self.concat_str([a, b])
            if isinstance(a, VList) and isinstance(b, VList):
                return self.list_concat(a, b)
            if isinstance(a, VTuple) and isinstance(b, VTuple):
                return VTuple(a.items + b.items)
        if isinstance(op, ast.Mult) and isinstance(a, VList) and is_int(b):
            raise Unsupported("list repetition")
        num = lambda v: is_int(v) or is_real(v)
        if not (num(a) and num(b)):
            if isinstance(op, (ast.Add, ast.Sub, ast.Mult, ast.Div)) and not self.spec:
                # e.g. None + 1: TypeError
                self.may_raise(True, "TypeError", node)
                return 0
            raise Unsupported(f"binop on {a!r}, {b!r}")
        real = is_real(a) or is_real(b) or isinstance(op, ast.Div)
        za, zb = to_z3(a, "real" if real else None), to_z3(b, "real" if real else None)
        if isinstance(op, ast.Add):
            return za + zb
        if isinstance(op, ast.Sub):
            return za - zb
        if isinstance(op, ast.Mult):
            return za * zb
        if isinstance(op, ast.Div):
            self.may_raise(zb == 0, "ZeroDivisionError", node)
            return self.real_div(za, zb)
        if isinstance(op, ast.FloorDiv) and not real:
            if isinstance(b, int) and b > 0:
                return za / zb  # z3 integer div: floor for positive divisors
            raise Unsupported("floor division by a non-constant")
        if isinstance(op, ast.Mod) and not real:
            if isinstance(b, int) and b > 0:
                return za % zb
            # symbolic divisor: ZeroDivisionError on 0; SMT-LIB mod is non-negative (0 <= r < |b|), Python's result takes
            # the sign of the divisor: for b < 0 it is r + b unless r == 0
            self.may_raise(zb == 0, "ZeroDivisionError", node)
            rpos = za % zb
            rneg = za % (-zb)
            return z3.If(zb > 0, rpos, z3.If(rneg == 0, z3.IntVal(0), rneg + zb))
        if isinstance(op, ast.Pow) and isinstance(b, int) and 0 <= b <= 4:
            r = z3.RealVal(1) if real else z3.IntVal(1)
            for _ in range(b):
                r = r * za
            return r
        raise Unsupported(f"binop {type(op).__name__}")

    def real_div(self, x, y):
        """x / y as x * inv(y): inv(y) is a memoised fresh variable with the defining fact y != 0 -> inv(y)*y == 1
        (keeps verification conditions polynomial)"""
        if z3.is_rational_value(y) or z3.is_int_value(y):
            return x / y
        cache = self.__dict__.setdefault("_inv_cache", {})
        key = y.get_id()
        if key not in cache:
            r = z3.Real(uid("inv"))
            self.global_facts.append(z3.Implies(y != 0, r * y == 1))
            cache[key] = (r, y)
        return x * cache[key][0]

    def vec_binop(self, op, a, b, node):
        def comp(v, k):
            return v.c[k] if isinstance(v, VVec) else to_z3(v, "real")
        n = len(a.c) if isinstance(a, VVec) else len(b.c)
        if isinstance(a, VVec) and isinstance(b, VVec) and len(a.c) != len(b.c):
            self.may_raise(True, "ValueError", node)
        out = []
        for k in range(n):
            x, y = comp(a, k), comp(b, k)
            if isinstance(op, ast.Add):
                out.append(x + y)
            elif isinstance(op, ast.Sub):
                out.append(x - y)
            elif isinstance(op, ast.Mult):
                out.append(x * y)
            elif isinstance(op, ast.Div):
                out.append(self.real_div(x, y))  # numpy: no exception on division by zero (inf/nan) - excluded by contracts
            else:
                raise Unsupported("vector operator")
        return VVec(out)

    def list_concat(self, a, b):
        if a.elems is None:
            return b
        if b.elems is None:
            return a
        q = z3.Int(uid("q"))
        la, lb = to_z3(a.length), to_z3(b.length)
        el = tzip(lambda x, y: z3.Lambda([q], z3.If(q < la, z3.Select(x, q), z3.Select(y, q - la))), a.elems, b.elems)
        ln = a.length + b.length if isinstance(a.length, int) and isinstance(b.length, int) else la + lb
        return VList(ln, el, a.eshape)

    def ev_Compare(self, node, st):
        left = self.ev(node.left, st)
        res = []
        pushed = 0
        try:
            for op, rn in zip(node.ops, node.comparators):
                right = self.ev(rn, st)
                if isinstance(op, (ast.In, ast.NotIn)) and isinstance(right, VRef) and self.classes.get(right.cls, {}).get("boxed_list"):
                    right = self.heap_read(st, right, self.classes[right.cls]["boxed_list"])  # `x in <list object>`: its content
                if isinstance(op, (ast.In, ast.NotIn)) and isinstance(right, VRef) and self.classes.get(right.cls, {}).get("boxed_set"):
                    right = self.heap_read(st, right, self.classes[right.cls]["boxed_set"])  # `x in <set object>`: its current content
                if isinstance(op, (ast.In, ast.NotIn)) and isinstance(right, VRef) and self.classes.get(right.cls, {}).get("boxed_valueset"):
                    right = self.heap_read(st, right, self.classes[right.cls]["boxed_valueset"])  # set object kept as the list of its values: membership = list membership
                if isinstance(op, ast.Lt) and isinstance(left, VRef) and isinstance(right, VRef) and not self.spec \
                        and self.resolve(f"{left.cls}.__lt__"):
                    c = self.truth(self.call_method(left, "__lt__", [right], {}, node, st))  # a < b is a.__lt__(b)
                elif isinstance(op, (ast.In, ast.NotIn)) and isinstance(right, VRef) and not self.spec \
                        and f"{right.cls}.__contains__" in self.externals:
                    # `x in obj` for an object of a class whose __contains__ the sidecar models (assumed external): obj.__contains__(x)
                    c = self.truth(self.call_method(right, "__contains__", [left], {}, node, st))
                    if isinstance(op, ast.NotIn):
                        c = (not c) if isinstance(c, bool) else NOT(c)
                else:
                    c = self.compare(op, left, right, node, st)
                res.append(c)
                left = right
                if len(node.ops) > 1:
                    self.guard.append(to_z3(c))
                    pushed += 1
        finally:
            for _ in range(pushed):
                self.guard.pop()
        return res[0] if len(res) == 1 else AND(*res)

    def compare(self, op, a, b, node=None, st=None):
        if (isinstance(a, VRec) or isinstance(b, VRec) or (isinstance(a, VRef) and not isinstance(b, VRef))
                or (isinstance(b, VRef) and not isinstance(a, VRef))) and st is not None:
            # comparison operators of a value class whose special method the sidecar supplies (e.g. `expr <= 1` building a
            # constraint object): see op_dunder
            r = self.op_dunder(self._CMP_DUNDER.get(type(op)), a, b, node, st)
            if r is not self._NO_DUNDER:
                return r
        if isinstance(op, ast.Eq):
            return self.eq(a, b)
        if isinstance(op, ast.NotEq):
            e = self.eq(a, b)
            return (not e) if isinstance(e, bool) else NOT(e)
        if isinstance(op, (ast.Is, ast.IsNot)):
            if a is None or b is None or isinstance(a, bool) or isinstance(b, bool) or is_bool(a) or is_bool(b):
                e = self.eq(a, b)
            elif isinstance(a, VRef) and isinstance(b, VRef):
                e = to_z3(a.ident) == to_z3(b.ident)
            elif isinstance(a, VConc) and isinstance(b, VConc):
                e = a.obj is b.obj
            else:
                raise Unsupported("identity comparison")
            if isinstance(op, ast.Is):
                return e
            return (not e) if isinstance(e, bool) else NOT(e)
        if isinstance(op, (ast.In, ast.NotIn)):
            e = self.contains(b, a, node)
            if isinstance(op, ast.In):
                return e
            return (not e) if isinstance(e, bool) else NOT(e)
        # ordering
        if isinstance(a, VRef) and isinstance(b, VRef) and a.cls == b.cls and isinstance(op, (ast.Lt, ast.Gt)):
            # `<` of two references of a class whose sidecar entry names an `lt` relation: a UFUNS predicate over the two
            # references standing for the user-defined __lt__ (declared pure there); a > b is b.__lt__(a) (total_ordering)
            fn = self.classes.get(a.cls, {}).get("lt")
            if fn is not None:
                return self.spec_env[fn].payload(a, b) if isinstance(op, ast.Lt) else self.spec_env[fn].payload(b, a)
        # ordering
        if isinstance(a, VTuple) and isinstance(b, VTuple):
            return self.lex_lt(op, a.items, b.items)
        if a is None or b is None or isinstance(a, VOpt) or isinstance(b, VOpt):
            na = a.isnone if isinstance(a, VOpt) else (a is None)
            nb = b.isnone if isinstance(b, VOpt) else (b is None)
            self.may_raise(OR(na, nb), "TypeError", node)
            a = a.val if isinstance(a, VOpt) else (0 if a is None else a)
            b = b.val if isinstance(b, VOpt) else (0 if b is None else b)
        if is_str(a) and is_str(b):
            za, zb = to_z3(a), to_z3(b)
            if isinstance(op, ast.Lt):
                return za < zb
            if isinstance(op, ast.LtE):
                return za <= zb
            if isinstance(op, ast.Gt):
                return zb < za
            return zb <= za
        if is_conc(a) and is_conc(b):
            return {ast.Lt: a < b, ast.LtE: a <= b, ast.Gt: a > b, ast.GtE: a >= b}[type(op)]
        if not ((is_int(a) or is_real(a)) and (is_int(b) or is_real(b))):
            raise Unsupported(f"ordering of {a!r} and {b!r}")
        real = is_real(a) or is_real(b)
        za, zb = to_z3(a, "real" if real else None), to_z3(b, "real" if real else None)
        if isinstance(op, ast.Lt):
            return za < zb
        if isinstance(op, ast.LtE):
            return za <= zb
        if isinstance(op, ast.Gt):
            return za > zb
        if isinstance(op, ast.GtE):
            return za >= zb
        raise Unsupported("compare op")

    def lex_lt(self, op, xs, ys):
        strict = isinstance(op, (ast.Lt, ast.Gt))
        if isinstance(op, (ast.Gt, ast.GtE)):
            xs, ys = ys, xs
        if not xs or not ys:
            if strict:
                return len(xs) < len(ys)
            return len(xs) <= len(ys)
        lt = self.compare(ast.Lt(), xs[0], ys[0])
        e = self.eq(xs[0], ys[0])
        rest = self.lex_lt(ast.Lt() if strict else ast.LtE(), xs[1:], ys[1:])
        return OR(lt, AND(e, rest))

    def contains(self, cont, x, node=None):
        if isinstance(cont, VConc):
            obj = cont.obj
            if isinstance(obj, (str, tuple, list, set, frozenset, dict, types.MappingProxyType)):  # (a mapping proxy - e.g. Enum.__members__ - tests its keys, like the dict it wraps)
                if is_conc(x):
                    return x in obj
                if isinstance(obj, str):
                    return self.contains(obj, x)
                return OR(*[self.eq(self.from_py(o), x) for o in obj])
            raise Unsupported("membership in concrete object")
        if isinstance(cont, str) and isinstance(x, VChar):
            return OR(*[to_z3(x.code) == ord(ch) for ch in dict.fromkeys(cont)])
        if isinstance(cont, str) or (is_leaf(cont) and cont.sort() == z3.StringSort()):
            if isinstance(cont, str) and isinstance(x, str):
                return x in cont
            if isinstance(cont, str) and len(cont) <= 80 and is_leaf(x):
                # substring test of a symbolic string in a constant: for length-1 x this is a char-class test
                return z3.Contains(z3.StringVal(cont), x)
            return z3.Contains(to_z3(cont), to_z3(x))
        if isinstance(cont, VTuple):
            return OR(*[self.eq(c, x) for c in cont.items])
        if isinstance(cont, VList):
            if cont.elems is None:
                return False
            if getattr(self.sidecar, "FINITE_MEMBERSHIP", False):
                # opt-in of the sidecar: a list whose length is syntactically bounded by a small constant (constant tables,
                # their concatenations and case splits): x in L as the finite disjunction over the positions below the bound
                # (the same meaning as the existential below, without a quantifier)
                bound = _len_bound(to_z3(cont.length))
                if bound is not None and bound <= 16:
                    return OR(*[AND(k_ < to_z3(cont.length), self.eq(sel(cont.elems, z3.IntVal(k_)), x)) for k_ in range(bound)])
            q = z3.Int(uid("q"))
            return z3.Exists([q], z3.And(q >= 0, q < to_z3(cont.length), to_z3(self.eq(sel(cont.elems, q), x))))
        if isinstance(x, VOpt) and isinstance(cont, (VSet, VDict)) and cont.kshape[0] != "opt":
            # None is never a member of a container whose keys are all non-None
            return AND(NOT(x.isnone), self.contains(cont, x.val, node))
        if isinstance(cont, (VSet, VDict)) and isinstance(x, VOpt) and cont.kshape[0] != "opt":
            # an Optional value looked up among keys that are never None: None is not a member, otherwise its payload
            return AND(NOT(x.isnone), self.contains(cont, x.val, node))
        if isinstance(cont, VSet):
            return sel(cont.mem, *key_terms(self.coerce(x, cont.kshape)))
        if isinstance(cont, VDict):
            return sel(cont.dom, *key_terms(self.coerce(x, cont.kshape)))
        raise Unsupported(f"membership in {type(cont).__name__}")

    # ------------------------------------------------------------------ subscripts
    def ev_Subscript(self, node, st):
        base = self.ev(node.value, st)
        if isinstance(node.slice, ast.Slice):
            return self.slice_of(base, node.slice, st, node)
        idx = self.ev(node.slice, st)
        return self.index(base, idx, node, st)

    def norm_index(self, i, length, node):
        """Python index normalisation with IndexError condition"""
        if isinstance(i, int) and isinstance(length, int):
            if not (-length <= i < length):
                self.may_raise(True, "IndexError", node)
                return 0
            return i if i >= 0 else i + length
        zi, zl = to_z3(i), to_z3(length)
        if isinstance(i, int):
            if i >= 0:
                self.may_raise(zl <= i, "IndexError", node)
                return zi
            self.may_raise(zl < -i, "IndexError", node)
            return zl + i
        if not is_int(i):
            self.may_raise(True, "TypeError", node)
            return z3.IntVal(0)
        if self.spec:
            return zi
        self.may_raise(OR(zi >= zl, zi < -zl), "IndexError", node)
        if self.nonneg_index_hint(zi):
            return zi
        return z3.If(zi < 0, zi + zl, zi)

    def nonneg_index_hint(self, zi):
        return False

    def index(self, base, idx, node, st):
        if isinstance(base, VList):
            if base.elems is None:
                self.may_raise(True, "IndexError", node)
                raise Unsupported("index into empty literal list")
            i = self.norm_index(idx, base.length, node)
            if self.prune and not self.spec and not is_conc(idx) and is_int(idx) and z3.is_app(i) and i.decl().kind() == z3.Z3_OP_ITE \
                    and self.decided(st, to_z3(idx) >= 0) is True:
                i = to_z3(idx)  # opt-in (PRUNE_BRANCHES): the path condition decides that no negative-index wrap-around happens
            if isinstance(base.length, int) and 0 < base.length <= 64 and base.eshape in (("str",), ("int",)) and not is_conc(i):
                # a list of known length whose elements all fold to constants (a literal table), symbolic position:
                # the same value written as a case split over the position
                items = [z3.simplify(sel(base.elems, z3.IntVal(k_))) for k_ in range(base.length)]
                if all(z3.is_string_value(x_) or z3.is_int_value(x_) for x_ in items):
                    res = items[-1]
                    for k_ in range(base.length - 2, -1, -1):
                        res = z3.If(to_z3(i) == k_, items[k_], res)
                    return res
            return sel(base.elems, to_z3(i))
        if isinstance(base, VVec):
            if isinstance(idx, int) and -len(base.c) <= idx < len(base.c):
                return base.c[idx]
            raise Unsupported("symbolic index into a vector")
        if isinstance(base, VTuple):
            if isinstance(idx, int):
                if not (-len(base.items) <= idx < len(base.items)):
                    self.may_raise(True, "IndexError", node)
                    return 0
                return base.items[idx]
            i = self.norm_index(idx, len(base.items), node)
            res = base.items[-1]
            for k in range(len(base.items) - 2, -1, -1):
                res = self.merge(to_z3(i) == k, base.items[k], res)
            return res
        if is_str(base):
            if isinstance(base, str) and isinstance(idx, int):
                if not (-len(base) <= idx < len(base)):
                    self.may_raise(True, "IndexError", node)
                    return ""
                return base[idx]
            if is_leaf(base) and isinstance(idx, int) and not isinstance(idx, bool):
                # s[k] of a finite choice among constant strings: index every alternative (same value, no string theory)
                pushed = ite_const_map(base, lambda t: t[idx] if -len(t) <= idx < len(t) else None)
                if pushed is not None:
                    return pushed
            ln = len(base) if isinstance(base, str) else z3.Length(base)
            i = self.norm_index(idx, ln, node)
            if isinstance(base, str) and len(base) <= 64:
                # constant string, symbolic position: the same value as substr(base, i, 1), written as a case split
                res = z3.StringVal("")
                for k in range(len(base) - 1, -1, -1):
                    res = z3.If(to_z3(i) == k, z3.StringVal(base[k]), res)
                return res
            return z3.SubString(to_z3(base), to_z3(i), 1)
        if isinstance(base, VDict):
            if not isinstance(idx, VOpt):
                idx = self.coerce(idx, base.kshape)  # e.g. a one-character string used as key of a dict keyed by characters
            if isinstance(idx, VOpt) and base.kshape[0] != "opt" and base.default is None:
                self.may_raise(idx.isnone, "KeyError", node)  # None is not a key of a dict whose keys are all non-None
                idx = idx.val
            ks = key_terms(idx)
            if base.default is None:
                self.may_raise(NOT(sel(base.dom, *ks)), "KeyError", node)
                return sel(base.vals, *ks)
            # defaultdict: a read inserts the default; handled by the statement layer via dd_touch
            self.dd_touch(node, st, base, idx)
            return ite_tree(sel(base.dom, *ks), sel(base.vals, *ks), self.coerce(self.default_of(base.vshape), base.vshape))
        if isinstance(base, VConc):
            obj = base.obj
            if isinstance(obj, type) and issubclass(obj, enum.Enum):
                return self.enum_lookup(obj, idx, node)
            if is_conc(idx) or isinstance(idx, VTuple) and all(is_conc(x) for x in idx.items):
                key = tuple(idx.items) if isinstance(idx, VTuple) else idx
                try:
                    return self.from_py(obj[key])
                except (KeyError, IndexError) as e:
                    self.may_raise(True, type(e).__name__, node)
                    return None
            if isinstance(obj, (list, tuple, str)):
                vals = [self.from_py(o) for o in obj]
                i = self.norm_index(idx, len(vals), node)
                res = vals[-1]
                for k in range(len(vals) - 2, -1, -1):
                    res = self.merge(to_z3(i) == k, vals[k], res)
                return res
            if isinstance(obj, dict):
                return self.conc_dict_lookup(obj, idx, node)
        if isinstance(base, VRef):
            return self.call_method(base, "__getitem__", [idx], {}, node, st)
        if isinstance(base, VOpt) and not self.spec:
            # x[i] for an Optional x: TypeError ('NoneType' object is not subscriptable) exactly when x is None, otherwise the
            # subscript of its payload
            self.may_raise(base.isnone, "TypeError", node)
            return self.index(base.val, idx, node, st)
        if isinstance(base, VRec) and self.classes.get(base.cls, {}).get("dict_keys") and isinstance(idx, str):
            # d["k"] on a dict with a fixed set of string keys, modelled as a record (class entry "dict_keys": True - the dict
            # has exactly the record's field names as keys): the field for a key, KeyError otherwise (cf. d.get in call_method)
            if idx in base.fields:
                return base.fields[idx]
            self.may_raise(True, "KeyError", node)
            return None
        if isinstance(base, VRec) and f"{base.cls}.__getitem__" in self.externals and getattr(self.externals[f"{base.cls}.__getitem__"], "pure", False):
            return self.call_method(base, "__getitem__", [idx], {}, node, st)  # value object of a third-party class: its assumed contract
        raise Unsupported(f"subscript of {type(base).__name__} at line {node.lineno}")

    def conc_dict_lookup(self, obj, idx, node):
        items = list(obj.items())
        hit = OR(*[self.eq(self.from_py(k), idx) for k, _ in items])
        self.may_raise(NOT(hit), "KeyError", node)
        res = self.from_py(items[-1][1])
        for k, v in reversed(items[:-1]):
            res = self.merge(self.eq(self.from_py(k), idx), self.from_py(v), res)
        return res

    def enum_lookup(self, cls, name, node):
        """Enum[name]: KeyError unless name is a member name"""
        members = list(cls.__members__.items())
        if isinstance(name, VOpt):
            # Enum[x] with x Optional: None is not a member name (KeyError), otherwise the lookup of its payload
            self.may_raise(name.isnone, "KeyError", node)
            name = name.val
        if isinstance(name, str):
            if name in cls.__members__:
                return VConc(cls[name])
            self.may_raise(True, "KeyError", node)
            return VConc(members[0][1])
        hit = OR(*[to_z3(name) == k for k, _ in members])
        self.may_raise(NOT(hit), "KeyError", node)
        return VEnumSym(cls, name, "name")

    def dd_touch(self, node, st, base, idx):
        pass

    def slice_of(self, base, sl, st, node):
        lo = self.ev(sl.lower, st) if sl.lower is not None else None
        hi = self.ev(sl.upper, st) if sl.upper is not None else None
        if sl.step is not None:
            raise Unsupported("slice step")
        if is_str(base):
            if isinstance(base, str) and (lo is None or isinstance(lo, int)) and (hi is None or isinstance(hi, int)):
                return base[lo:hi]
            zb = to_z3(base)
            ln = z3.Length(zb)
            # lean forms (z3's substr already clamps out-of-range offsets/lengths the way Python slicing does)
            if isinstance(lo, int) and lo >= 0 and hi is None:
                return z3.SubString(zb, lo, ln - lo)
            if lo is None and isinstance(hi, int) and hi < 0:
                return z3.SubString(zb, 0, ln + hi)
            if (lo is None or (isinstance(lo, int) and lo >= 0)) and isinstance(hi, int) and hi >= 0:
                return z3.SubString(zb, lo or 0, hi - (lo or 0)) if hi > (lo or 0) else ""
            a = self.clamp(lo, ln, 0)
            b = self.clamp(hi, ln, ln)
            return z3.SubString(zb, a, z3.If(b - a > 0, b - a, 0))
        if isinstance(base, VList):
            ln = to_z3(base.length)
            a = self.clamp(lo, ln, 0, st)
            b = self.clamp(hi, ln, ln, st)
            q = z3.Int(uid("q"))
            el = tmap(lambda x: z3.Lambda([q], z3.Select(x, q + a)), base.elems)
            if self.prune and self.decided(st, b - a > 0) is True:
                return VList(z3.simplify(b - a), el, base.eshape)  # the same length, the case split decided by the path condition
            return VList(z3.If(b - a > 0, b - a, z3.IntVal(0)), el, base.eshape)
        if isinstance(base, VTuple):
            if (lo is None or isinstance(lo, int)) and (hi is None or isinstance(hi, int)):
                return VTuple(base.items[lo:hi])
        raise Unsupported(f"slice of {type(base).__name__}")

    def clamp(self, v, ln, dflt, st=None):
        if v is None:
            return to_z3(dflt)
        if st is not None and self.prune:
            # opt-in (sidecar PRUNE_BRANCHES): where the path condition already decides the case split of Python's slice-bound
            # normalisation, the bound is the plain value (same value as the conditional below, smaller term)
            z0 = to_z3(v)
            if (not isinstance(v, int) or v >= 0) and self.decided(st, z3.And(z0 >= 0, z0 <= ln)) is True:
                return z0
            if isinstance(v, int) and v < 0 and self.decided(st, ln + v >= 0) is True:
                return z3.simplify(ln + v)
        if isinstance(v, int):
            if v >= 0:
                return z3.If(ln < v, ln, z3.IntVal(v))
            return z3.If(ln + v < 0, z3.IntVal(0), ln + v)
        z = to_z3(v)
        z = z3.If(z < 0, z3.If(z + ln < 0, z3.IntVal(0), z + ln), z)
        return z3.If(z > ln, ln, z)

    # ------------------------------------------------------------------ lambda / comprehension
    def ev_Lambda(self, node, st):
        return VFunc("lambda", (node, dict(st.env)), "<lambda>")

    def apply(self, f, args, st, node=None, kwargs=None):
        """apply a function value to argument values (pure expression-level call)"""
        kwargs = kwargs or {}
        if f.kind == "lambda":
            lam, env = f.payload
            st2 = st.copy()
            st2.env = dict(env)
            params = [a.arg for a in lam.args.args]
            for p, a in zip(params, args):
                st2.env[p] = a
            return self.ev(lam.body, st2)
        if f.kind == "pyfunc":
            return f.payload(*args, **kwargs)
        raise Unsupported(f"apply {f.kind}")

    def ev_ListComp(self, node, st):
        return self.comprehension(node, st, "list")

    def ev_GeneratorExp(self, node, st):
        return self.comprehension(node, st, "list")

    def comprehension(self, node, st, kind):
        if len(node.generators) != 1:
            raise Unsupported("nested comprehension")
        g = node.generators[0]
        it = self.ev(g.iter, st)
        conc = self.conc_iter(it)
        if conc is not None:
            out = []
            for x in conc:
                st2 = st.copy()
                self.bind_target(g.target, x, st2, node)
                ok = True
                for c in g.ifs:
                    t = conc_bool(self.truth(self.ev(c, st2)))
                    if t is None:
                        raise Unsupported("symbolic filter in concrete comprehension")
                    ok = ok and t
                if ok:
                    out.append(self.ev(node.elt, st2))
            return self.list_literal(out)
        if g.ifs:
            if not isinstance(it, VList) or it.elems is None:
                raise Unsupported("filtered comprehension over a symbolic iterable")

            def pred_fn(x):
                st2 = st.copy()
                self.bind_target(g.target, x, st2, node)
                return AND(*[self.truth(self.ev(c, st2)) for c in g.ifs])

            def elt_fn(x):
                st2 = st.copy()
                self.bind_target(g.target, x, st2, node)
                return self.ev(node.elt, st2)

            return self.materialize_filter(it, pred_fn, elt_fn, st, node)
        q = z3.Int(uid("q"))
        if isinstance(it, VRange):
            n = it.hi - it.lo if isinstance(it.hi, int) and isinstance(it.lo, int) else to_z3(it.hi) - to_z3(it.lo)
            x = q + to_z3(it.lo)
            length = n if isinstance(n, int) else z3.If(n > 0, n, z3.IntVal(0))
            if isinstance(length, int):
                length = max(length, 0)
        elif isinstance(it, VList):
            x = sel(it.elems, q)
            length = it.length
        elif isinstance(it, VSet):
            # a set is visited in an arbitrary order, every member exactly once: the (unknown) duplicate-free enumeration
            length, el_at = self.set_iter_plan(it, node, st)
            x = el_at(q)
        elif type(it).__name__ == "VDictView" and it.d.order is not None:
            # a dict view iterates in insertion order of the keys (language guarantee)
            key = sel(it.d.order.elems, q)
            val = sel(it.d.vals, *key_terms(key))
            x = {"keys": key, "values": val, "items": VTuple([key, val])}[it.which]
            length = it.d.order.length
        else:
            raise Unsupported(f"comprehension over {type(it).__name__}")
        st2 = st.copy()
        self.bind_target(g.target, x, st2, node)
        self.guard.append(z3.And(q >= 0, q < to_z3(length)))
        outer_binders = tuple(self.binders)
        self.binders = outer_binders + (q,)
        saved_block = getattr(self, "alloc_block", None)
        # objects constructed by the element expression: one allocation per element, element q gets identity base + q
        self.alloc_block = None if outer_binders else {"q": q, "n": to_z3(length), "base": to_z3(st.alloc), "count": 0, "writes": []}
        saved_facts = self.__dict__.get("_elem_facts")
        self._elem_facts = elem_facts = []
        try:
            elt = self.ev(node.elt, st2)
            block = self.alloc_block
        finally:
            self.guard.pop()
            self.binders = tuple(self.binders)[:-1]
            self.alloc_block = saved_block
            self._elem_facts = saved_facts
        if saved_facts is not None and not outer_binders:
            saved_facts.extend(elem_facts)
        if block is not None and block["count"]:
            self.commit_alloc_block(block, st)
        for f in elem_facts:
            # the postconditions of observer contract calls in the element expression (call_contract_elementwise), already
            # quantified over the comprehension variables, hold in the enclosing state as well
            st.assume(f)
        # may-raise conditions recorded under the guard mention q: close them existentially
        self.close_mayraise(q)
        eshape = shape_of(elt)
        elems = tmap(lambda leaf: z3.Lambda([q], leaf), self.coerce(elt, eshape))
        return VList(length, elems, eshape)

    def commit_alloc_block(self, block, st):
        """[C(..x..) for x in L] allocates len(L) new objects: element q is the reference base + q (base = allocation
        frontier before the comprehension) and every field f of C becomes
            f'[r] = value_of_f(q := r - base)  for base <= r < base + n,   f'[r] = f[r] otherwise;
        the frontier moves to base + n.  (f' is a fresh array defined by that equation for every r.)"""
        q, n, base = block["q"], block["n"], block["base"]
        r = z3.Int(uid("r"))
        for cls, f, val in block["writes"]:
            shp = self.field_shape(cls, f)
            val = self.coerce(val, shp)
            old = self.heap_tree(st, cls, f)
            new = fresh(shp, uid(f"H.{cls}.{f}@comp"), (I,))
            inblock = z3.And(r >= base, r < base + n)
            at = tmap(lambda leaf: z3.substitute(leaf, (q, r - base)), val)
            eqs = []
            tzip(lambda a_, b_: (eqs.append(a_ == b_), a_)[1], sel(new, r), ite_tree(inblock, at, sel(old, r)))
            st.assume(z3.ForAll([r], z3.And(*eqs)))
            st.heap[(cls, f)] = new
        st.alloc = z3.simplify(base + n)

    # variables bound by enclosing comprehensions during symbolic evaluation of an element expression: anything "fresh"
    # created there must be a function of them (materialize_filter does this; contract calls are refused)
    binders = ()

    def _under_binders(self, shape, name):
        """fresh value of `shape` that is a function of the current binders (a fresh constant when there are none)"""
        bs = list(self.binders)
        lifted = fresh(shape, name, tuple(b.sort() for b in bs))
        return sel(lifted, *bs) if bs else lifted

    def materialize_filter(self, base, pred_fn, elt_fn, st, node):
        """[elt(x) for x in base if pred(x)] for a list of symbolic length: the language-level meaning of filtering,
        given by an (unknown) strictly increasing index map idx onto the positions that satisfy pred and its inverse pos:
            0 <= m <= n;   idx[j] in [0, n), pred(base[idx[j]]) and out[j] == elt(base[idx[j]]) for j < m;   idx increasing;
            pred(base[i]) -> pos[i] in [0, m) and idx[pos[i]] == i   for i < n.
        Exactly one (m, idx restricted to [0, m)) satisfies this for given base/pred, so nothing is approximated."""
        n = to_z3(base.length)
        m = self._under_binders(("int",), uid("flt.len"))
        bs = list(self.binders)
        bsorts = tuple(b.sort() for b in bs)
        idx_l = fresh(("int",), uid("flt.idx"), bsorts + (I,))
        pos_l = fresh(("int",), uid("flt.pos"), bsorts + (I,))
        idx = sel(idx_l, *bs) if bs else idx_l
        pos = sel(pos_l, *bs) if bs else pos_l
        i, j, j2 = z3.Int(uid("i")), z3.Int(uid("j")), z3.Int(uid("j"))
        # pred at an arbitrary position (evaluated by Python for every element, in order)
        self.guard.append(z3.And(i >= 0, i < n))
        self.binders = tuple(self.binders) + (i,)
        try:
            p_i = to_z3(pred_fn(sel(base.elems, i)))
            self.guard[-1] = z3.And(i >= 0, i < n, p_i)
            e_i = elt_fn(sel(base.elems, i))
        finally:
            self.guard.pop()
            self.binders = tuple(self.binders)[:-1]
        self.close_mayraise(i)
        eshape = shape_of(e_i)
        e_i = self.coerce(e_i, eshape)
        # out[j] == elt(base[idx[j]]) leaf by leaf (an array constrained by a quantified fact rather than a lambda term)
        out_l = fresh(eshape, uid("flt.out"), bsorts + (I,))
        elems = sel(out_l, *bs) if bs else out_l
        want = tmap(lambda leaf: z3.substitute(leaf, (i, z3.Select(idx, j))), e_i)
        same = z3.And(*[a_ == b_ for a_, b_ in zip(leaves(sel(elems, j)), leaves(want))])
        p_at = lambda t: z3.substitute(p_i, (i, t))
        ax = z3.And(
            m >= 0, m <= n,
            z3.ForAll([j], z3.Implies(z3.And(j >= 0, j < m), same)),
            z3.ForAll([j], z3.Implies(z3.And(j >= 0, j < m), z3.And(z3.Select(idx, j) >= 0, z3.Select(idx, j) < n, p_at(z3.Select(idx, j))))),
            z3.ForAll([j, j2], z3.Implies(z3.And(j >= 0, j < j2, j2 < m), z3.Select(idx, j) < z3.Select(idx, j2))),
            z3.ForAll([i], z3.Implies(z3.And(i >= 0, i < n, p_i),
                                      z3.And(z3.Select(pos, i) >= 0, z3.Select(pos, i) < m, z3.Select(idx, z3.Select(pos, i)) == i))))
        st.assume(z3.ForAll(bs, ax) if bs else ax)
        self.last_filter = {"binders": bs, "len": m, "idx": idx, "pos": pos, "n": n}
        return VList(m, elems, eshape)

    def ev_DictComp(self, node, st):
        """{key(x): val(x) for x in L}: insertion-ordered dict built by successive stores.  Characterised by unknown maps
        lo (key -> its last position in L, whose value wins), fo (rank -> first position of the rank-th distinct key),
        rank (key -> its rank): dom = keys occurring in L; vals[k] = val(L[lo[k]]); order = distinct keys by first
        occurrence."""
        if len(node.generators) != 1 or node.generators[0].ifs or self.binders:
            raise Unsupported("dict comprehension with several generators, a filter, or nested in a comprehension")
        g = node.generators[0]
        it = self.ev(g.iter, st)
        conc = self.conc_iter(it)
        if conc is not None:
            # concrete iterable: the successive stores, literally; the dict's shape comes from the contract's `locals`
            shp = getattr(self, "local_hint", None)
            if shp is None or shp[0] != "dict":
                raise Unsupported("dict comprehension over a concrete iterable: declare the target's shape in `locals`")
            from .engine import VEmptyDict
            d = self.empty_of(shp, VEmptyDict())
            for x in conc:
                st2 = st.copy()
                self.bind_target(g.target, x, st2, node)
                d = self.dict_store(d, self.coerce(self.ev(node.key, st2), shp[1]), self.ev(node.value, st2))
            return d
        if isinstance(it, VDict):
            if it.order is None:
                raise Unsupported("iteration over a dict of unknown insertion order")
            it = it.order
        if isinstance(it, VRange):
            it = self.bi_list([it], {}, node, st)  # {.. for x in range(a, b)}: the same as over the list a, a+1, .., b-1
        if not isinstance(it, VList) or it.elems is None:
            raise Unsupported(f"dict comprehension over {type(it).__name__}")
        n = to_z3(it.length)
        q = z3.Int(uid("q"))
        st2 = st.copy()
        self.bind_target(g.target, sel(it.elems, q), st2, node)
        self.guard.append(z3.And(q >= 0, q < n))
        self.binders = tuple(self.binders) + (q,)
        try:
            key = self.ev(node.key, st2)
            val = self.ev(node.value, st2)
        finally:
            self.guard.pop()
            self.binders = tuple(self.binders)[:-1]
        self.close_mayraise(q)
        for f in st2.pc[len(st.pc):]:
            # facts established while evaluating key/value that do not depend on the position q (e.g. the closed
            # characterisation of a filtering list built per element) hold in the enclosing state as well
            if not any(v.eq(q) for v in _free_consts(f)):
                st.assume(f)
        kshape = shape_of(key)
        if val is None:
            vshape = ("opt", ("int",))  # a dict whose values are all None
        else:
            vshape = shape_of(val)
        val = self.coerce(val, vshape)
        kq = key_terms(key)
        ksorts = key_sorts(kshape)
        ks = [z3.Const(uid("k"), srt) for srt in ksorts]
        dom = fresh(("bool",), uid("dc.dom"), tuple(ksorts))
        lo = fresh(("int",), uid("dc.last"), tuple(ksorts))
        rank = fresh(("int",), uid("dc.rank"), tuple(ksorts))
        fo = z3.Const(uid("dc.first"), z3.ArraySort(I, I))
        order = fresh(("list", kshape), uid("dc.order"))
        L = to_z3(order.length)
        a, b, w = z3.Int(uid("a")), z3.Int(uid("b")), z3.Int(uid("w"))
        key_at = lambda t: [z3.substitute(x, (q, t)) for x in kq]
        eqk = lambda xs, ys: z3.And(*[x == y for x, y in zip(xs, ys)]) if xs else z3.BoolVal(True)
        lo_k, rank_k, dom_k = sel(lo, *ks), sel(rank, *ks), sel(dom, *ks)
        ord_at = lambda t: key_terms(sel(order.elems, t))
        st.assume(z3.ForAll([q], z3.Implies(z3.And(q >= 0, q < n), sel(dom, *kq))))
        st.assume(z3.ForAll(ks, z3.Implies(dom_k, z3.And(
            lo_k >= 0, lo_k < n, eqk(key_at(lo_k), ks),
            z3.ForAll([w], z3.Implies(z3.And(lo_k < w, w < n), z3.Not(eqk(key_at(w), ks)))),
            rank_k >= 0, rank_k < L, eqk(ord_at(rank_k), ks)))))
        st.assume(z3.And(L >= 0, L <= n))
        st.assume(z3.ForAll([a], z3.Implies(z3.And(a >= 0, a < L), z3.And(
            z3.Select(fo, a) >= 0, z3.Select(fo, a) < n, eqk(key_at(z3.Select(fo, a)), ord_at(a)),
            z3.ForAll([w], z3.Implies(z3.And(w >= 0, w < z3.Select(fo, a)), z3.Not(eqk(key_at(w), ord_at(a)))))))))
        st.assume(z3.ForAll([a, b], z3.Implies(z3.And(a >= 0, a < b, b < L), z3.Select(fo, a) < z3.Select(fo, b))))
        vals = tmap(lambda leaf: _lambda_multi(ks, z3.substitute(leaf, (q, lo_k))), val)
        self.last_dictcomp = {"last": lo, "rank": rank, "first": fo, "kshape": kshape}
        return VDict(kshape, vshape, dom, vals, order)

    def close_mayraise(self, q):
        out = []
        for c, exc, nd in self.mayraise:
            if any(v.eq(q) for v in _free_consts(c)):
                c = z3.Exists([q], c)
            out.append((c, exc, nd))
        self.mayraise[:] = out

    def conc_iter(self, it):
        """python list of values if the iterable is concrete and small, else None"""
        if isinstance(it, str):
            return list(it)
        if isinstance(it, VConc) and isinstance(it.obj, (str, list, tuple, dict, set, frozenset, range)):
            if len(it.obj) <= 128:
                return [self.from_py(x) for x in it.obj]
        if isinstance(it, VConc) and isinstance(it.obj, type) and issubclass(it.obj, enum.Enum) and len(it.obj) <= 128:
            return [VConc(m) for m in it.obj]  # iterating an Enum class yields its members in definition order
        if isinstance(it, VTuple):
            return list(it.items)
        if isinstance(it, VRange) and isinstance(it.lo, int) and isinstance(it.hi, int) and it.hi - it.lo <= 64:
            return list(range(it.lo, it.hi))
        if isinstance(it, VZip):
            parts = [self.conc_iter(p) for p in it.parts]
            if all(p is not None for p in parts):
                return [VTuple(list(t)) for t in zip(*parts)]
        if isinstance(it, VList) and isinstance(it.length, int) and it.length <= 64:
            return [sel(it.elems, z3.IntVal(k)) for k in range(it.length)]
        return None


class VZip:
    def __init__(self, parts):
        self.parts = parts


class VEnumerate:
    def __init__(self, base, start=0):
        self.base, self.start = base, start


class VVec:
    """fixed-length numeric vector (numpy array of known length) of Real terms"""

    def __init__(self, comps):
        self.c = [to_z3(x, "real") for x in comps]

    def __repr__(self):
        return f"VVec({self.c})"


class VChoice:
    """`a` if `c` else `b`, for opaque concrete objects a, b (VConc or nested VChoice) that have no symbolic representation"""

    def __init__(self, c, a, b):
        self.c, self.a, self.b = c, a, b


class VEnumSym:
    """symbolic enum member given by a symbolic name/value string"""

    def __init__(self, cls, key, by):
        self.cls, self.key, self.by = cls, key, by


def VEnumIte(engine, c, a, b):
    # two concrete members merged: represent by symbolic name
    ka = a.obj.name if isinstance(a, VConc) else a.key
    kb = b.obj.name if isinstance(b, VConc) else b.key
    cls = type(a.obj) if isinstance(a, VConc) else a.cls
    return VEnumSym(cls, z3.If(to_z3(c), to_z3(ka), to_z3(kb)), "name")


def _lambda_multi(ks, body):
    """nested lambda over several index variables (array leaves indexed key component by key component)"""
    for k in reversed(ks):
        body = z3.Lambda([k], body)
    return body


def ite_const_map(z, f):
    """z: z3 term. If z is a constant or an if-then-else tree whose leaves are all string constants, the tree with f applied
    to every leaf (f: python str -> str | int; returning None for some leaf aborts) else None.  g(ite(c,a,b)) == ite(c,g(a),g(b))."""
    def walk(e, depth=0):
        if depth > 200:
            return None
        if z3.is_string_value(e):
            r = f(e.as_string())
            if r is None:
                return None
            return z3.StringVal(r) if isinstance(r, str) else z3.IntVal(r)
        if z3.is_app(e) and e.decl().kind() == z3.Z3_OP_ITE:
            a, b = walk(e.arg(1), depth + 1), walk(e.arg(2), depth + 1)
            if a is None or b is None:
                return None
            return z3.If(e.arg(0), a, b)
        return None
    return walk(z)


def _len_bound(t):
    """a constant upper bound of the integer term t when t is built from integer constants by if-then-else and +, else None"""
    t = z3.simplify(t)
    if z3.is_int_value(t):
        return t.as_long()
    if z3.is_app(t) and t.decl().kind() == z3.Z3_OP_ITE:
        a, b = _len_bound(t.arg(1)), _len_bound(t.arg(2))
        return None if a is None or b is None else max(a, b)
    if z3.is_app(t) and t.decl().kind() == z3.Z3_OP_ADD:
        parts = [_len_bound(c) for c in t.children()]
        return None if any(p_ is None for p_ in parts) else sum(parts)
    return None


def _has_quant(e, seen=None):
    seen = set() if seen is None else seen
    if e.get_id() in seen:
        return False
    seen.add(e.get_id())
    if z3.is_quantifier(e):
        return True
    return any(_has_quant(ch, seen) for ch in e.children())


def _free_consts(e, acc=None, seen=None):
    acc = [] if acc is None else acc
    seen = set() if seen is None else seen
    if e.get_id() in seen:
        return acc
    seen.add(e.get_id())
    if z3.is_const(e) and e.decl().kind() == z3.Z3_OP_UNINTERPRETED:
        acc.append(e)
    elif z3.is_quantifier(e):
        _free_consts(e.body(), acc, seen)
    else:
        for ch in e.children():
            _free_consts(ch, acc, seen)
    return acc
