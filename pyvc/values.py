"""Symbolic value trees for the pyvc engine.

A value is one of
  * a z3 expression of a base sort (Int, Bool, Real, String) or an array of those (a "leaf");
  * a concrete Python scalar (int, bool, str, None, Fraction) - folded, converted on demand;
  * VTuple, VList, VDict, VSet, VRef, VRec, VOpt, VEnum, VFunc, VConc.
Containers hold *lifted* trees: the element tree of a list has the same structure as one element, with
every leaf sort S replaced by Array(Int, S).  Selecting / storing maps over the leaves.
"""
from __future__ import annotations

import itertools
from fractions import Fraction

import z3

_ctr = itertools.count()


def uid(prefix="v"):
    return f"{prefix}!{next(_ctr)}"


def reset_uids():
    """restart the fresh-name counter: called at the start of every verification target, so that the names occurring in a
    target's obligations (and with them the solvers' heuristics) do not depend on what was verified before in the process"""
    global _ctr
    _ctr = itertools.count()


class Unsupported(Exception):
    """Construct outside the engine's subset: the function is rejected, never approximated."""


# ---------------------------------------------------------------------------------------------
# shapes
# ---------------------------------------------------------------------------------------------

BASE_SORTS = {"int": z3.IntSort, "bool": z3.BoolSort, "real": z3.RealSort, "str": z3.StringSort}
CSTR = ("list", ("char",))
# record classes (name -> sidecar CLASSES entry) of the sidecar of the engine created last; lets records sit inside
# containers (fresh list[rec[..]], dict keys that are records)
REC_TABLE = {}


def parse_shape(text):
    """'int' | 'list[tuple[int,int,int]]' | 'Entry' (heap reference) | 'dict[int,set[int]]' | 'opt[int]'"""
    import ast

    def conv(n):
        if isinstance(n, ast.Name):
            if n.id in BASE_SORTS:
                return (n.id,)
            if n.id == "char":
                return ("char",)
            if n.id == "cstr":
                return CSTR
            if n.id == "vec3":
                return ("vec", 3)
            return ("ref", n.id)
        if isinstance(n, ast.Subscript):
            head = n.value.id
            args = n.slice.elts if isinstance(n.slice, ast.Tuple) else [n.slice]
            if head == "list":
                return ("list", conv(args[0]))
            if head == "tuple":
                return ("tuple", tuple(conv(a) for a in args))
            if head == "hlist":
                return ("hlist", tuple(conv(a) for a in args))
            if head == "dict":
                return ("dict", conv(args[0]), conv(args[1]))
            if head == "set":
                return ("set", conv(args[0]))
            if head == "opt":
                return ("opt", conv(args[0]))
            if head == "rec":
                if len(args) > 1:
                    # rec[A,B,..]: an instance of any ONE of the listed record classes (see urec_as_tuple / ExprMixin.coerce)
                    return ("urec", tuple(a.id for a in args))
                return ("rec", args[0].id)
            if head == "enum":
                if len(args) > 1:
                    # enum[A,B,..]: a member of any of the listed Enum classes (see ExprMixin.coerce: position in the
                    # concatenation of the classes' member lists)
                    return ("enum", tuple(a.id for a in args))
                return ("enum", args[0].id)
        raise ValueError(f"bad shape {text!r}")

    if isinstance(text, tuple):
        return text
    return conv(ast.parse(text, mode="eval").body)


# ---------------------------------------------------------------------------------------------
# value classes
# ---------------------------------------------------------------------------------------------


class VTuple:
    def __init__(self, items):
        self.items = list(items)

    def __repr__(self):
        return f"VTuple({self.items})"


class VHList(VTuple):
    """fixed-length list literal with elements of different shapes (e.g. [i, "?", 0]): value semantics like VList
    (writes go back through the access path), item assignment by constant index; compares unequal to a tuple"""

    def __repr__(self):
        return f"VHList({self.items})"


class VList:
    """length: Int-sorted leaf (possibly lifted); elems: lifted tree of one element."""

    def __init__(self, length, elems, eshape):
        self.length, self.elems, self.eshape = length, elems, eshape

    def __repr__(self):
        return f"VList(len={self.length}, {self.eshape})"


class VDict:
    """dom: Array(K.., Bool); vals: lifted tree; order: optional VList of keys (insertion order)."""

    def __init__(self, kshape, vshape, dom, vals, order=None, default=None):
        self.kshape, self.vshape, self.dom, self.vals, self.order, self.default = kshape, vshape, dom, vals, order, default


class VSet:
    def __init__(self, kshape, mem):
        self.kshape, self.mem = kshape, mem


class VRef:
    def __init__(self, cls, ident):
        self.cls, self.ident = cls, ident

    def __repr__(self):
        return f"VRef({self.cls},{self.ident})"


class VRec:
    """immutable record (frozen dataclass / value object): fields dict name->value"""

    def __init__(self, cls, fields):
        self.cls, self.fields = cls, dict(fields)

    def __repr__(self):
        return f"VRec({self.cls},{self.fields})"


class VChar:
    """one-character string represented by its code point (Int leaf)"""

    def __init__(self, code):
        self.code = code

    def __repr__(self):
        return f"VChar({self.code})"


class VOpt:
    def __init__(self, isnone, val):
        self.isnone, self.val = isnone, val


class VFunc:
    def __init__(self, kind, payload, name="<fn>"):
        self.kind, self.payload, self.name = kind, payload, name


class VFilter:
    def __init__(self, preds, base):
        self.preds, self.base = preds, base  # preds: list of VFunc, base: VList | VRange


class VRange:
    def __init__(self, lo, hi):
        self.lo, self.hi = lo, hi


class VConc:
    """opaque concrete Python object from the real module (table, enum class, module...)."""

    def __init__(self, obj):
        self.obj = obj

    def __repr__(self):
        return f"VConc({self.obj!r})"


# ---------------------------------------------------------------------------------------------
# leaf helpers
# ---------------------------------------------------------------------------------------------


def is_leaf(v):
    return isinstance(v, z3.ExprRef)


def to_z3(v, want=None):
    if isinstance(v, z3.ExprRef):
        if want == "real" and v.sort() == z3.IntSort():
            return z3.ToReal(v)
        return v
    if isinstance(v, bool):
        return z3.BoolVal(v)
    if isinstance(v, int):
        return z3.RealVal(v) if want == "real" else z3.IntVal(v)
    if isinstance(v, (float, Fraction)):
        fr = Fraction(str(v)) if isinstance(v, float) else v
        return z3.RealVal(f"{fr.numerator}/{fr.denominator}")
    if isinstance(v, str):
        return z3.StringVal(v)
    raise Unsupported(f"cannot convert {v!r} to a z3 term")


def is_conc(v):
    return isinstance(v, (bool, int, str, float, Fraction)) or v is None


def tmap(f, v):
    """map f over the leaves of a value tree (concrete scalars are converted first)"""
    if isinstance(v, z3.ExprRef):
        return f(v)
    if is_conc(v) and v is not None:
        return f(to_z3(v))
    if isinstance(v, VChar):
        return VChar(f(to_z3(v.code)))
    if type(v).__name__ == "VVec":
        return type(v)([f(x) for x in v.c])
    if isinstance(v, VTuple):
        return type(v)([tmap(f, x) for x in v.items])
    if isinstance(v, VList):
        return VList(tmap(f, v.length), tmap(f, v.elems), v.eshape)
    if isinstance(v, VRef):
        return VRef(v.cls, f(to_z3(v.ident)))
    if isinstance(v, VRec):
        return VRec(v.cls, {k: tmap(f, x) for k, x in v.fields.items()})
    if isinstance(v, VOpt):
        return VOpt(f(to_z3(v.isnone)), tmap(f, v.val))
    if isinstance(v, VSet):
        return VSet(v.kshape, f(v.mem))
    if isinstance(v, VDict):
        return VDict(v.kshape, v.vshape, f(v.dom), tmap(f, v.vals), None if v.order is None else tmap(f, v.order), v.default)
    raise Unsupported(f"tmap over {type(v).__name__}")


def tzip(f, a, b):
    """map f over pairs of corresponding leaves of two trees of the same structure"""
    if isinstance(a, str) and len(a) == 1 and isinstance(b, VChar):
        a = VChar(ord(a))
    if isinstance(a, z3.ExprRef) or (is_conc(a) and a is not None and not isinstance(b, (VTuple, VList, VRef, VRec, VOpt, VChar))):
        za = to_z3(a)
        zb = to_z3(b, "real" if _elem_sort(za) == z3.RealSort() else None)
        return f(za, zb)
    if type(a).__name__ == "VVec":
        return type(a)([f(x, y) for x, y in zip(a.c, b.c)])
    if isinstance(a, VChar):
        if isinstance(b, str) and len(b) == 1:
            b = VChar(ord(b))
        if not isinstance(b, VChar):
            raise Unsupported(f"char structure mismatch: {b!r}")
        return VChar(f(to_z3(a.code), to_z3(b.code)))
    if isinstance(a, VTuple):
        if not isinstance(b, VTuple) or len(a.items) != len(b.items):
            raise Unsupported("tuple structure mismatch")
        return type(a)([tzip(f, x, y) for x, y in zip(a.items, b.items)])
    if isinstance(a, VList):
        if not isinstance(b, VList):
            raise Unsupported("list structure mismatch")
        return VList(tzip(f, a.length, b.length), tzip(f, a.elems, b.elems), a.eshape)
    if isinstance(a, VRef):
        if not isinstance(b, VRef):
            raise Unsupported(f"ref structure mismatch: {b!r}")
        return VRef(a.cls, f(to_z3(a.ident), to_z3(b.ident)))
    if isinstance(a, VRec):
        return VRec(a.cls, {k: tzip(f, x, b.fields[k]) for k, x in a.fields.items()})
    if isinstance(a, VOpt):
        if not isinstance(b, VOpt):
            b = VOpt(b is None, a.val if b is None else b)
        return VOpt(f(to_z3(a.isnone), to_z3(b.isnone)), tzip(f, a.val, b.val))
    if isinstance(a, VSet):
        return VSet(a.kshape, f(a.mem, b.mem))
    if isinstance(a, VDict):
        return VDict(a.kshape, a.vshape, f(a.dom, b.dom), tzip(f, a.vals, b.vals), None if a.order is None else tzip(f, a.order, b.order), a.default)
    raise Unsupported(f"tzip over {type(a).__name__}")


def _elem_sort(z):
    s = z.sort()
    while isinstance(s, z3.ArraySortRef):
        s = s.range()
    return s


def leaves(v, acc=None):
    acc = [] if acc is None else acc
    tmap(lambda x: (acc.append(x), x)[1], v)
    return acc


# Composite keys (tuples / records / Optionals used as dict or set keys).  Default: one array dimension per component.
# Opt-in (sidecar PACK_KEYS): the components are packed into ONE index of an uninterpreted sort by an injective function
# pack (injective because it has left inverses unpack_i): a store/select on a key is then one array operation instead of a
# nest of one per component.  Same meaning (keys are equal iff all components are), much smaller case analysis.
PACK = {"enabled": False, "funs": {}, "axioms": [], "sink": None}
NESTED_ORDER = {"enabled": False}  # sidecar opt-in NESTED_DICT_ORDER (see fresh: dict shapes inside containers)


def _pack_decl(sorts):
    sig = tuple(str(s_) for s_ in sorts)
    if sig not in PACK["funs"]:
        name = f"PK{len(PACK['funs'])}"
        S = z3.DeclareSort(name)
        f = z3.Function("pack_" + name, *(list(sorts) + [S]))
        vs = [z3.Const(f"{name}_c{i}", s_) for i, s_ in enumerate(sorts)]
        axioms = [z3.ForAll(vs, z3.Function(f"unpack_{name}_{i}", S, s_)(f(*vs)) == vs[i], patterns=[f(*vs)]) for i, s_ in enumerate(sorts)]
        PACK["funs"][sig] = (S, f, axioms)
        PACK["axioms"] += axioms
    S, f, axioms = PACK["funs"][sig]
    if PACK["sink"] is not None:
        for a_ in axioms:
            if not any(a_.eq(x) for x in PACK["sink"]):
                PACK["sink"].append(a_)
    return S, f


def key_sorts(kshape):
    flat = _key_sorts_flat(kshape)
    if PACK["enabled"] and len(flat) > 1:
        return [_pack_decl(flat)[0]]
    return flat


def key_terms(k):
    """the index term(s) of a key value: its flattened components, or their packing (see PACK)"""
    flat = _key_terms_flat(k)
    if PACK["enabled"] and len(flat) > 1:
        return [_pack_decl([t.sort() for t in flat])[1](*flat)]
    return flat


def urec_as_tuple(shape):
    """rec[A,B,..] - a value that is an instance of one of several record classes (frozen dataclasses: instances of different
    classes are never equal, instances of one class are equal iff their fields are) - is represented as the tuple
    (tag, a, b, ..): tag = position of the value's class in the list, the component of that class holds the record and every
    other component is the class's fixed default record.  Two such tuples are equal iff the tags and the records are."""
    return ("tuple", (("int",),) + tuple(("rec", c) for c in shape[1]))


def _key_sorts_flat(kshape):
    if kshape[0] == "urec":
        return _key_sorts_flat(urec_as_tuple(kshape))
    if kshape[0] == "tuple":
        out = []
        for s in kshape[1]:
            out += _key_sorts_flat(s)
        return out
    if kshape[0] == "rec" and kshape[1] in REC_TABLE:
        # a record used as a key: its fields in declaration order (dataclass eq/hash compare exactly these)
        out = []
        for s in REC_TABLE[kshape[1]]["fields"].values():
            out += _key_sorts_flat(parse_shape(s))
        return out
    if kshape[0] == "opt":
        # Optional key: (is None, payload); the payload is normalised to a default when None (see key_terms)
        return [z3.BoolSort()] + _key_sorts_flat(kshape[1])
    if kshape[0] in ("ref", "enum", "char"):
        return [z3.IntSort()]
    return [BASE_SORTS[kshape[0]]()]


def _key_terms_flat(k):
    """flatten a key value into a list of z3 index terms"""
    if isinstance(k, VTuple):
        out = []
        for x in k.items:
            out += _key_terms_flat(x)
        return out
    if isinstance(k, VRef):
        return [to_z3(k.ident)]
    if isinstance(k, VChar):
        return [to_z3(k.code)]
    if isinstance(k, str) and len(k) == 1 and False:
        return [z3.IntVal(ord(k))]
    if isinstance(k, VRec):
        out = []
        for x in k.fields.values():
            out += _key_terms_flat(x)
        return out
    if isinstance(k, VOpt):
        # None is one key: the (arbitrary) payload of a None is replaced by the sort's default
        n = to_z3(k.isnone)
        return [n] + [z3.If(n, _sort_default(t.sort()), t) for t in _key_terms_flat(k.val)]
    return [to_z3(k)]


def _sort_default(s):
    if s == z3.IntSort():
        return z3.IntVal(0)
    if s == z3.BoolSort():
        return z3.BoolVal(False)
    if s == z3.RealSort():
        return z3.RealVal(0)
    if s == z3.StringSort():
        return z3.StringVal("")
    raise Unsupported(f"no default for key sort {s}")


def fresh(shape, name, idx=()):
    """fresh symbolic value of `shape`; every leaf is lifted over the index sorts `idx`"""
    kind = shape[0]

    def leaf(base, nm):
        s = base
        for i in reversed(idx):
            s = z3.ArraySort(i, s)
        return z3.Const(nm, s)

    if kind in BASE_SORTS:
        return leaf(BASE_SORTS[kind](), name)
    if kind == "ref":
        return VRef(shape[1], leaf(z3.IntSort(), name))
    if kind == "enum":
        return leaf(z3.IntSort(), name)
    if kind == "char":
        return VChar(leaf(z3.IntSort(), name))
    if kind == "vec":
        from .expr import VVec
        return VVec([leaf(z3.RealSort(), f"{name}.{k}") for k in range(shape[1])])
    if kind == "tuple":
        return VTuple([fresh(s, f"{name}.{k}", idx) for k, s in enumerate(shape[1])])
    if kind == "hlist":
        return VHList([fresh(s, f"{name}.{k}", idx) for k, s in enumerate(shape[1])])
    if kind == "list":
        return VList(leaf(z3.IntSort(), name + ".len"), fresh(shape[1], name + ".el", idx + (z3.IntSort(),)), shape[1])
    if kind == "opt":
        return VOpt(leaf(z3.BoolSort(), name + ".none"), fresh(shape[1], name + ".some", idx))
    if kind == "set":
        ks = tuple(key_sorts(shape[1]))
        return VSet(shape[1], _mk_arr(name + ".mem", idx + ks, z3.BoolSort()))
    if kind == "dict":
        ks = tuple(key_sorts(shape[1]))
        # a dict nested in another container (idx non-empty), opt-in of the sidecar (NESTED_DICT_ORDER): the unknown dict also
        # carries an (unknown, lifted) insertion-ordered key list, so that a dict stored as a value of another dict can be
        # iterated / measured after it has been read back.  Without the opt-in nothing changes (no order: iteration refused).
        order = fresh(("list", shape[1]), name + ".order", idx) if (NESTED_ORDER["enabled"] and idx) else None
        return VDict(shape[1], shape[2], _mk_arr(name + ".dom", idx + ks, z3.BoolSort()), fresh(shape[2], name + ".val", idx + ks), order)
    if kind == "urec":
        return fresh(urec_as_tuple(shape), name, idx)
    if kind == "rec":
        info = REC_TABLE.get(shape[1])
        if info is None:
            raise Unsupported("fresh record needs class table; use Engine.fresh")
        return VRec(shape[1], {f: fresh(parse_shape(s), f"{name}.{f}", idx) for f, s in info["fields"].items()})
    raise Unsupported(f"fresh of shape {shape}")


def _mk_arr(name, idx, rng):
    if not idx:
        return z3.Const(name, rng)
    s = rng
    # multi-index arrays as nested arrays (uniform with lifting)
    for i in reversed(idx):
        s = z3.ArraySort(i, s)
    return z3.Const(name, s)


def sel(tree, *idx):
    """select through (nested) array leaves with the given index terms"""

    def f(leaf):
        for i in idx:
            leaf = _select(leaf, i)
        return leaf

    return tmap(f, tree)


def _select(arr, i):
    """arr[i]; a lambda-array applied to an index is beta-reduced on the spot (same term up to beta, no lambda left)"""
    if z3.is_quantifier(arr) and arr.is_lambda() and arr.num_vars() == 1 and isinstance(i, z3.ExprRef) and arr.var_sort(0) == i.sort():
        return z3.substitute_vars(arr.body(), i)
    if z3.is_app(arr) and arr.decl().kind() == z3.Z3_OP_STORE and arr.num_args() == 3 and isinstance(i, z3.ExprRef) and arr.arg(1).eq(i):
        return arr.arg(2)  # read of the cell just written (syntactically the same index): the written value
    return z3.Select(arr, i)


def sto(tree, idx, val):
    """store val (tree of the element structure) at nested index idx"""

    def f(arr, x):
        return _store_nested(arr, list(idx), x)

    return tzip(f, tree, val)


def _store_nested(arr, idx, x):
    if len(idx) == 1:
        return z3.Store(arr, idx[0], x)
    inner = z3.Select(arr, idx[0])
    return z3.Store(arr, idx[0], _store_nested(inner, idx[1:], x))


def ite_tree(c, a, b):
    if a is None and b is None:
        return None
    c = to_z3(c)
    if z3.is_true(c):
        return a
    if z3.is_false(c):
        return b
    return tzip(lambda x, y: z3.If(c, x, y), a, b)


def shape_of(v):
    """best-effort shape of an existing value (used to havoc loop-modified variables)"""
    if isinstance(v, bool):
        return ("bool",)
    if isinstance(v, int):
        return ("int",)
    if isinstance(v, str):
        return ("str",)
    if isinstance(v, (float, Fraction)):
        return ("real",)
    if isinstance(v, z3.ExprRef):
        s = v.sort()
        for k, mk in BASE_SORTS.items():
            if s == mk():
                return (k,)
        raise Unsupported(f"shape of leaf sort {s}")
    if isinstance(v, VChar):
        return ("char",)
    if type(v).__name__ == "VVec":
        return ("vec", len(v.c))
    if isinstance(v, VHList):
        return ("hlist", tuple(shape_of(x) for x in v.items))
    if isinstance(v, VTuple):
        return ("tuple", tuple(shape_of(x) for x in v.items))
    if isinstance(v, VList):
        return ("list", v.eshape)
    if isinstance(v, VRef):
        return ("ref", v.cls)
    if isinstance(v, VOpt):
        return ("opt", shape_of(v.val))
    if isinstance(v, VSet):
        return ("set", v.kshape)
    if isinstance(v, VDict):
        return ("dict", v.kshape, v.vshape)
    if isinstance(v, VRec):
        return ("rec", v.cls)
    raise Unsupported(f"shape_of {type(v).__name__}")
