"""Tiny converter: the regular-expression subset used in sidecar specs -> z3 regex terms.
Supported: literals, [classes with ranges], (alternation|groups), ?, *, +, {n}, escaped chars."""
import z3


def to_z3_re(pat):
    pos = 0

    def char():
        """one (possibly escaped) character at pos"""
        nonlocal pos
        c = pat[pos]
        if c == "\\":
            pos += 1
            c = pat[pos]
            if c == "x":
                c = chr(int(pat[pos + 1:pos + 3], 16))
                pos += 2
        pos += 1
        return c

    def peek():
        return pat[pos] if pos < len(pat) else None

    def alt():
        nonlocal pos
        branches = [seq()]
        while peek() == "|":
            pos += 1
            branches.append(seq())
        return branches[0] if len(branches) == 1 else z3.Union(*branches)

    def seq():
        nonlocal pos
        items = []
        while peek() is not None and peek() not in "|)":
            items.append(rep())
        if not items:
            return z3.Re("")
        return items[0] if len(items) == 1 else z3.Concat(*items)

    def rep():
        nonlocal pos
        a = atom()
        while peek() is not None and peek() in "?*+{":
            c = peek()
            pos += 1
            if c == "?":
                a = z3.Option(a)
            elif c == "*":
                a = z3.Star(a)
            elif c == "+":
                a = z3.Plus(a)
            else:
                j = pat.index("}", pos)
                n = int(pat[pos:j])
                pos = j + 1
                a = z3.Concat(*([a] * n)) if n > 1 else a
        return a

    def atom():
        nonlocal pos
        c = peek()
        if c == "(":
            pos += 1
            a = alt()
            assert peek() == ")"
            pos += 1
            return a
        if c == "[":
            pos += 1
            parts = []
            while peek() != "]":
                lo = char()
                if peek() == "-" and pat[pos + 1] != "]":
                    pos += 1
                    hi = char()
                    parts.append(z3.Range(lo, hi))
                else:
                    parts.append(z3.Re(lo))
            pos += 1
            return parts[0] if len(parts) == 1 else z3.Union(*parts)
        return z3.Re(char())

    r = alt()
    assert pos == len(pat), f"regex parse error at {pos} in {pat!r}"
    return r
