"""Discharge obligations: z3 (python API, in worker processes) -> cvc5 binary for z3's unknowns."""
from __future__ import annotations

import multiprocessing as mp
import os
import re
import subprocess
import tempfile
import time

import z3

Z3_TIMEOUT_MS = int(os.environ.get("PYVC_Z3_MS", "30000"))
CVC5_TIMEOUT_S = int(os.environ.get("PYVC_CVC5_S", "60"))


def _model_text(s):
    try:
        m = s.model()
        return {str(d): str(m[d]) for d in m.decls()[:200]}
    except Exception:
        return {}


def _check_z3(smt2, timeout_ms, seed=0, want_model=True, params=None):
    t0 = time.time()
    # a fresh context per query: the answer (and the time) then depends on the query text only, not on which terms the
    # process has built before (term numbering in the shared main context steers z3's instantiation order)
    s = z3.Solver(ctx=z3.Context())
    s.set("timeout", timeout_ms)
    if seed:
        s.set("random_seed", seed)
    for k, v in (params or {}).items():
        s.set(k, v)
    s.from_string(smt2)
    r = s.check()
    model = None
    if r == z3.sat and want_model:
        model = _model_text(s)
    reason = s.reason_unknown() if r == z3.unknown else ""
    return str(r), time.time() - t0, model, reason


def _check_cvc5(smt2, timeout_s):
    t0 = time.time()
    text = "\n".join(l for l in smt2.splitlines() if not l.startswith("(model-add"))
    if "(set-logic" not in text:
        text = "(set-logic ALL)\n" + text
    with tempfile.NamedTemporaryFile("w", suffix=".smt2", delete=False) as f:
        f.write(text)
        path = f.name
    try:
        p = subprocess.run(["/usr/bin/cvc5", "--strings-exp", f"--tlimit={timeout_s * 1000}", path],
                           capture_output=True, text=True, timeout=timeout_s + 10)
        out = p.stdout.strip().splitlines()
        r = out[0] if out else "unknown"
        if r not in ("sat", "unsat"):
            r = "unknown"
    except Exception:
        r = "unknown"
    finally:
        os.unlink(path)
    return r, time.time() - t0


def discharge_one(job):
    name, smt2, opts = job
    res = {"name": name, "backend": None, "result": "unknown", "ms": 0, "model": None, "reason": ""}
    try:
        full = opts.get("z3_ms", Z3_TIMEOUT_MS)
        first = min(full, opts.get("z3_first_ms", 4000))
        r, dt, model, reason = _check_z3(smt2, min(first, opts["z3_probe_ms"]) if opts.get("z3_probe_ms") else first)
        res.update(result=r, ms=int(dt * 1000), backend="z3-" + z3.get_version_string(), model=model, reason=reason)
        if r == "unknown" and opts.get("z3_probe_ms") and opts.get("cvc5", True) and "lambda" not in smt2:
            # opt-in stage order (DEDUCTIVE entry "opts": {"z3_probe_ms": n}): a short z3 attempt, then cvc5, then the usual
            # z3 stages - for obligation families on which z3's instantiation wanders while cvc5 answers at once; only a
            # definite answer of cvc5 is taken, otherwise the pipeline below runs unchanged
            r0, dt0 = _check_cvc5(smt2, opts.get("cvc5_probe_s", 5))
            res["ms"] += int(dt0 * 1000)
            if r0 in ("unsat", "sat"):
                res.update(result=r0, backend="cvc5-1.0.3", model=None, reason="")
                return res
            opts = dict(opts, cvc5=False)  # already asked
        if r == "unknown" and opts.get("z3_probe_ms") and opts["z3_probe_ms"] < first:
            # the probe was shorter than the regular first z3 stage: that stage is run now, then the pipeline continues as usual
            r, dt, model, reason = _check_z3(smt2, first)
            res["ms"] += int(dt * 1000)
            res.update(result=r, backend="z3-" + z3.get_version_string(), model=model, reason=reason)
        if r == "unknown" and "forall" in smt2:
            # pure E-matching (no model-based instantiation): quantified obligations whose instances are all triggered
            # by ground terms are decided in milliseconds this way where MBQI wanders off; only `unsat` is taken
            r1, dt1, _, _ = _check_z3(smt2, min(full, 10000), want_model=False, params={"smt.mbqi": False})
            res["ms"] += int(dt1 * 1000)
            if r1 == "unsat":
                res.update(result=r1, backend="z3-" + z3.get_version_string() + "(ematching)", model=None, reason="")
                r = r1
        if r == "unknown" and opts.get("cvc5", True) and "lambda" not in smt2:
            r2, dt2 = _check_cvc5(smt2, opts.get("cvc5_s", CVC5_TIMEOUT_S))
            res["ms"] += int(dt2 * 1000)
            if r2 in ("unsat", "sat"):
                res.update(result=r2, backend="cvc5-1.0.3", model=None)
        if res["result"] == "unknown" and full > first:
            r, dt, model, reason = _check_z3(smt2, full, seed=7)
            res["ms"] += int(dt * 1000)
            res.update(result=r, backend="z3-" + z3.get_version_string() + "(seed 7)", model=model, reason=reason)
        if opts.get("cross") and res["result"] == "unsat" and "lambda" not in smt2:
            # thorough tier: the other back end is asked as well; `sat` from one and `unsat` from the other means one of
            # them (or the translation) is wrong - reported as a checker error, never as a verdict
            if res["backend"].startswith("z3"):
                r2, dt2 = _check_cvc5(smt2, opts.get("cross_s", 10))
            else:
                r2, dt2, _, _ = _check_z3(smt2, opts.get("cross_s", 10) * 1000, want_model=False)
            res["ms"] += int(dt2 * 1000)
            res["cross"] = r2
            if r2 == "sat":
                res["conflict"] = True
    except Exception as e:  # solver crash: undecided, never a violation by itself
        res.update(result="error", reason=f"{type(e).__name__}: {e}")
    return res


def discharge(obls, procs=None, opts=None):
    """obls: list of Obligation -> list of result dicts (same order)"""
    opts = opts or {}
    jobs = [(o.name, o.to_smt2(), opts) for o in obls]
    procs = procs or min(16, max(1, len(jobs)))
    if len(jobs) <= 1 or procs == 1:
        return [discharge_one(j) for j in jobs]
    ctx = mp.get_context("fork")
    # hard wall-clock limit per obligation: z3's own timeout is occasionally not honoured (nonlinear arithmetic); a worker
    # that overruns every stage budget by a wide margin is abandoned and its obligation stays undecided ("unknown")
    stage_s = (opts.get("z3_ms", Z3_TIMEOUT_MS) * 2 + 10000) / 1000.0 + opts.get("cvc5_s", CVC5_TIMEOUT_S) + opts.get("cross_s", 10)
    hard_s = 3 * stage_s + 60
    pool = ctx.Pool(procs)
    try:
        handles = [pool.apply_async(discharge_one, (j,)) for j in jobs]
        out = []
        t_end = time.time() + hard_s * max(1, (len(jobs) + procs - 1) // procs)
        for j, h in zip(jobs, handles):
            try:
                out.append(h.get(timeout=max(5.0, t_end - time.time())))
            except mp.TimeoutError:
                out.append({"name": j[0], "backend": "none", "result": "unknown", "ms": int(hard_s * 1000), "model": None,
                            "reason": "hard wall-clock limit: the solver ignored its timeout"})
        return out
    finally:
        pool.terminate()
        pool.join()


def reach_one(job):
    """satisfiability of a path condition (vacuity guard): 'sat' | 'unsat' | 'unknown'"""
    name, smt2, ms = job
    try:
        r, dt, model, reason = _check_z3(smt2, ms, want_model=False)
        if r == "unknown" and "lambda" not in smt2:
            text = smt2
            r2, _ = _check_cvc5(text, max(2, ms // 1000))
            if r2 in ("sat", "unsat"):
                r = r2
        return name, r
    except Exception as e:
        return name, "unknown"


def reachability(named_formula_lists, ms=3000):
    jobs = []
    for name, fs in named_formula_lists:
        s = z3.Solver()
        for f in fs:
            s.add(f)
        jobs.append((name, s.to_smt2(), ms))
    if not jobs:
        return {}
    ctx = mp.get_context("fork")
    with ctx.Pool(min(16, len(jobs))) as pool:
        return dict(pool.map(reach_one, jobs, chunksize=1))
