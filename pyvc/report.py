"""Run one property: deductive targets + bounded stand-ins, known findings, replay files, evidence."""
from __future__ import annotations

import importlib
import json
import os
import re
import sys
import time
import traceback

ROOT = os.path.dirname(os.path.dirname(os.path.abspath(__file__)))
SRC_ROOT = os.environ.get("PYVC_SRC_ROOT", "/repo/src")
# runs against a scratch copy of the source (mutants, seeded changes) must not overwrite the evidence of /repo itself
# (one directory per scratch copy, so that runs against different copies can go on side by side)
OUT = ROOT if SRC_ROOT == "/repo/src" else os.path.join(ROOT, ".cache", "scratch-runs", re.sub(r"[^A-Za-z0-9_.-]+", "_", SRC_ROOT).strip("_"))


def _engine_targets(ded, results, tier):
    """generate + discharge obligations of one DEDUCTIVE entry"""
    from .engine import ContractError, Engine
    from .solve import discharge
    from .values import Unsupported

    side = importlib.import_module(ded["sidecar"])
    out = []
    all_obls = []
    targets = list(ded["targets"])
    for tgt in list(targets):
        # a contract that delegates some of its ensures to variants: the variants are verified with it, always
        cc = getattr(side, "CONTRACTS", {}).get(tgt)
        for var in sorted(set(getattr(cc, "ensures_in_variant", {}).values())) if cc is not None else []:
            if f"{tgt}@{var}" not in targets:
                targets.append(f"{tgt}@{var}")
    for tgt in targets:
        rec = {"target": tgt, "module": ded["module"], "status": None, "obligations": [], "reason": ""}
        try:
            eng = Engine(ded["module"], side, src_root=SRC_ROOT)
            if tgt.startswith("lemma:"):
                obls = eng.verify_lemma(tgt[6:])
            else:
                q, _, var = tgt.partition("@")
                obls = eng.verify(q, var or None)
                rec["source_hash"], rec["line0"], rec["line1"] = eng.func_hash(q)
            rec["_reach"] = [(f"{tgt}:{n}", fs) for n, fs in (eng.reach if not tgt.startswith("lemma:") else [])]
            rec["trivial"] = eng.trivial
            rec["externals"] = sorted(eng.used_externals)
            rec["callee_contracts"] = sorted(eng.called_contracts)
            rec["lemmas_used"] = sorted(getattr(eng, "used_lemmas", ()))
            # mechanical assumption scan: lemmas used that are not proved by SMT (definitions / assumed facts about externals)
            rec["unproved_lemmas"] = sorted(f"{n} ({eng.lemmas[n].get('kind')})" for n in rec["lemmas_used"]
                                            if eng.lemmas.get(n, {}).get("kind") != "smt")
            rec["sidecar"] = ded["sidecar"]
            if not obls:
                rec["status"] = "not-established"
                rec["reason"] = "zero obligations generated"
            else:
                rec["_obls"] = obls
                all_obls += [(rec, o) for o in obls]
        except (ContractError, Unsupported) as e:
            rec["status"] = "not-established"
            rec["reason"] = f"{type(e).__name__}: {e}"
        except Exception as e:
            rec["status"] = "not-established"
            rec["reason"] = f"engine error {type(e).__name__}: {e}"
            rec["trace"] = traceback.format_exc()[-1500:]
        out.append(rec)
    opts = {"z3_ms": 30000 if tier == "quick" else 60000, "cvc5_s": 30 if tier == "quick" else 90, "cross": tier != "quick"}
    opts.update(ded.get("opts", {}))
    retry_unknown = ded.get("retry_unknown", True)
    res = discharge([o for _, o in all_obls], opts=opts) if all_obls else []
    # retry unknowns on a quiet pool before they count as failed
    idx = [k for k, r in enumerate(res) if r["result"] in ("unknown", "error") and retry_unknown]
    if idx:
        from .solve import discharge_one
        import multiprocessing as mp
        jobs = [(all_obls[k][1].name, all_obls[k][1].to_smt2(), {"z3_ms": 2 * opts["z3_ms"], "z3_first_ms": opts["z3_ms"], "cvc5_s": opts["cvc5_s"]}) for k in idx]
        with mp.get_context("fork").Pool(min(8, len(jobs))) as pool:
            again = pool.map(discharge_one, jobs, chunksize=1)
        for k, r2 in zip(idx, again):
            r2["ms"] += res[k]["ms"]
            res[k] = r2
    for (rec, o), r in zip(all_obls, res):
        if r.get("conflict"):
            rec["conflict"] = rec.get("conflict", []) + [o.name]
        rec["obligations"].append({"name": o.name, "kind": o.kind, "result": r["result"], "backend": r["backend"], "ms": r["ms"],
                                   "cross": r.get("cross"),
                                   "model": r.get("model") if r["result"] == "sat" else None, "reason": r.get("reason", ""),
                                   "line": o.line})
    # vacuity guard: the entry condition must not be refutable and at least one normal exit must be reachable
    from .solve import reachability
    allreach = [x for rec in out for x in rec.get("_reach", [])]
    rres = reachability(allreach) if allreach else {}
    for rec in out:
        rr = {n.split(":", 1)[1]: rres.get(n) for n, _ in rec.pop("_reach", [])}
        rec["reachability"] = rr
        if rr:
            exits = [v for k, v in rr.items() if k.startswith("exit")]
            if rr.get("entry") == "unsat":
                rec["status"] = "not-established"
                rec["reason"] = "VACUOUS: the contract's requires are contradictory (entry condition unsat)"
            elif exits and all(v == "unsat" for v in exits):
                rec["status"] = "not-established"
                rec["reason"] = "VACUOUS: no normal exit is reachable under the contract's requires"
    for rec in out:
        rec.pop("_obls", None)
        if rec["status"] is None:
            bad = [o for o in rec["obligations"] if o["result"] != "unsat"]
            rec["status"] = "proved" if not bad else "failed"
    return out


def _all_targets():
    """(module, function) -> property ids whose DEDUCTIVE lists verify a contract on that function"""
    import glob
    out = {}
    for path in sorted(glob.glob(os.path.join(ROOT, "props", "C*.py"))):
        pid = os.path.basename(path)[:-3]
        try:
            m = importlib.import_module(f"props.{pid}")
        except Exception:
            continue
        for ded in getattr(m, "DEDUCTIVE", []):
            for t in ded.get("targets", []):
                if not t.startswith("lemma:"):
                    out.setdefault((ded["module"], t.split("@")[0]), set()).add(pid)
    return out


def _match_known(known, pid, kind, key):
    for f in known:
        if f.get("property") != pid or f.get("status") != "known":
            continue
        if f.get("kind") == kind and re.search(f["match"], key):
            return f
    return None


def encoder_crosscheck():
    """CPython cross-check of the expression encoder (tools/xcheck.py): symbolic terms vs CPython on every assignment of
    small domains; a disagreement means the checker itself is broken"""
    import importlib.util
    spec = importlib.util.spec_from_file_location("xcheck", os.path.join(ROOT, "tools", "xcheck.py"))
    mod = importlib.util.module_from_spec(spec)
    spec.loader.exec_module(mod)
    total, bad, skipped = mod.run(False)
    t2, b2, s2 = mod.run_functions(False)
    total, bad, skipped = total + t2, bad + b2, skipped + s2
    return {"expressions": len(mod.SNIPPETS) + len(mod.FUNCS) - len(skipped), "evaluations": total, "disagreements": len(bad),
            "first": [f"{e!r} at {env}: {a} / {b}" for e, env, a, b in bad[:3]]}


def run_property(pid, prop, tier, seed, known, t0):
    xc = None
    if getattr(prop, "DEDUCTIVE", None):
        xc = encoder_crosscheck()
        if xc["disagreements"]:
            print(f"CHECKER-ERROR property={pid} the encoding of Python disagrees with CPython: {xc['first']}")
            return 3
    os.makedirs(os.path.join(OUT, "replays"), exist_ok=True)
    os.makedirs(os.path.join(OUT, "evidence"), exist_ok=True)
    ded_results = []
    for ded in getattr(prop, "DEDUCTIVE", []):
        recs = _engine_targets(ded, ded_results, tier)
        for r in recs:
            r["suppressed_if_proved"] = ded.get("suppressed_if_proved")
        ded_results += recs
    # a contract that pins today's (defective) behaviour is dropped once the contract stating the property itself is proved
    proved = {r["target"] for r in ded_results if r["status"] == "proved"}
    for r in ded_results:
        if r.get("suppressed_if_proved") in proved and r["status"] != "proved":
            r["status"] = "superseded"
            r["reason"] = f"superseded: {r['suppressed_if_proved']} is proved"
            r["obligations"] = []
    # extra finite / lemma-level deductive checks implemented by the property module itself
    extra = []
    if hasattr(prop, "deductive_extra"):
        extra = prop.deductive_extra(tier, seed) or []
        ded_results += extra
    bounded = []
    if hasattr(prop, "bounded"):
        bounded = prop.bounded(tier, seed) or []

    conflicts = [n for r in ded_results for n in r.get("conflict", [])]
    if conflicts:
        print(f"CHECKER-ERROR property={pid} the two solver back ends disagree (unsat vs sat) on: {conflicts[:5]}")
        return 3
    violations = []  # dicts: what, obligation|None, input|None, detail
    known_lines = []
    n_obl = n_dis = 0
    solver_ms = 0
    backends = {}
    not_established = []
    for rec in ded_results:
        if rec["status"] == "not-established":
            not_established.append(f"{rec['target']}: {rec['reason']}")
        for o in rec["obligations"]:
            n_obl += 1
            solver_ms += o.get("ms", 0)
            if o["result"] == "unsat":
                n_dis += 1
                backends[o["backend"]] = backends.get(o["backend"], 0) + 1
            else:
                k = _match_known(known, pid, "obligation", o["name"])
                if k:
                    known_lines.append(f"KNOWN-FINDING: property={pid} {k['what']} [obligation {o['name']}]")
                else:
                    violations.append({"what": f"obligation {o['name']} not discharged ({o['result']})", "obligation": o,
                                       "target": rec["target"], "input": None})
    n_eval = 0
    nontrivial = 0
    samples = []
    rules = []
    bounded_viol = []
    for b in bounded:
        n_eval += b.get("evaluations", 0)
        nontrivial += b.get("distinct_nontrivial", 0)
        samples += b.get("samples", [])[:3]
        rules.append(f"{b['name']}: {b.get('rule', '')} [bound: {b.get('bound', '')}]")
        for v in b.get("violations", []):
            k = _match_known(known, pid, "input", v["signature"])
            if k:
                line = f"KNOWN-FINDING: property={pid} {k['what']} [input {v['signature'][:80]}]"
                if line not in known_lines:
                    known_lines.append(line)
            else:
                bounded_viol.append(dict(v, check=b["name"]))
    # attach concrete inputs to failed obligations when the bounded finder has one
    replay_paths = []
    vid = 0

    def write_replay(payload):
        nonlocal vid
        path = os.path.join(OUT, "replays", f"{pid}-{vid}.json")
        vid += 1
        with open(path, "w") as f:
            json.dump(payload, f, indent=1, default=str)
        return path

    lines = []
    used_inputs = set()
    for v in violations:
        o = v["obligation"]
        inp = None
        native = None
        # 1. ground counter-model replayed by the property module
        if o.get("model") and hasattr(prop, "replay_model"):
            try:
                native = prop.replay_model(o["name"], o["model"])
            except Exception as e:
                native = {"error": f"{type(e).__name__}: {e}"}
            if native and native.get("fails"):
                inp = native.get("input")
        # 2. bounded finder
        if inp is None:
            for bv in bounded_viol:
                if bv.get("relates") is None or re.search(bv["relates"], o["name"]):
                    inp = bv["input"]
                    native = {"fails": True, "input": inp, "what": bv["what"], "check": bv["check"]}
                    used_inputs.add(bv["signature"])
                    break
        path = write_replay({"property": pid, "obligation": o["name"], "function": v["target"], "line": o.get("line"),
                             "solver": {"result": o["result"], "backend": o["backend"], "ms": o["ms"], "reason": o.get("reason"),
                                        "model": o.get("model")},
                             "input": inp, "native": native})
        tail = "" if inp is not None else " no-failing-input-found"
        lines.append(f"VIOLATION property={pid} replay={path} obligation={o['name']}{tail}")
    for bv in bounded_viol:
        if bv["signature"] in used_inputs:
            continue
        path = write_replay({"property": pid, "obligation": None, "check": bv["check"], "what": bv["what"], "input": bv["input"],
                             "signature": bv["signature"]})
        lines.append(f"VIOLATION property={pid} replay={path} bounded-check={bv['check']} {bv['what'][:160]}")
        if len(lines) >= 4:
            break

    for l in known_lines:
        print(l)
    for l in not_established:
        print(f"NOT-ESTABLISHED property={pid} {l}")
    for l in lines:
        print(l)

    # ------------------------------------------------------------------ evidence
    functions = [{"target": r["target"], "module": r.get("module"), "status": r["status"], "obligations": len(r["obligations"]),
                  "discharged": sum(o["result"] == "unsat" for o in r["obligations"]), "source_hash": r.get("source_hash"),
                  "lines": [r.get("line0"), r.get("line1")], "callee_contracts": r.get("callee_contracts"),
                  "externals": r.get("externals"), "reason": r.get("reason"), "kind": r.get("kind", "pyvc"),
                  "reachability": r.get("reachability")} for r in ded_results]
    obl_samples = []
    for r in ded_results:
        for o in r["obligations"][:2]:
            obl_samples.append({"obligation": o["name"], "result": o["result"], "backend": o["backend"], "ms": o["ms"]})
    explanation = getattr(prop, "EXPLANATION", "")
    cov = {
        "explanation": explanation + (" || proof not re-established this run for: " + "; ".join(not_established) if not_established else ""),
        "functions_under_contract": functions,
        "obligations": n_obl,
        "discharged": n_dis,
        "solver_ms_total": solver_ms,
        "backends": backends,
        "cross_checked_by_other_backend": {k: sum(1 for r in ded_results for o in r["obligations"] if o.get("cross") == k) for k in ("unsat", "unknown", "sat")},
        "checker_cmd": f"./check.py {pid} --tier {tier}",
        "trusted_base": getattr(prop, "TRUSTED", []),
        "evaluations": n_eval,
        "distinct_nontrivial": nontrivial,
        "rule": " | ".join(rules),
        "samples": (obl_samples[:6] + samples[:6]) or ["none"],
        "bounded_parts": [{k: b.get(k) for k in ("name", "bound", "evaluations", "distinct_nontrivial", "rule")} for b in bounded],
        "known_findings_seen": known_lines,
        "encoder_crosscheck": xc,
        "exhaustive": False,
    }
    # ------------------------------------------------------------------ mechanical assumption scan
    scan = []
    verified_here = {r["target"].split("@")[0] for r in ded_results if r.get("status") == "proved"}
    all_targets = _all_targets()
    for r in ded_results:
        for q in r.get("callee_contracts") or []:
            if q in verified_here:
                continue
            where = sorted(all_targets.get((r.get("module"), q), ()))
            scan.append(f"callee contract {q} is used at call sites of {r['target']} and " +
                        (f"verified as a target of {', '.join(where)}" if where else "is NOT a verified target of any check (assumed contract)"))
        for x in r.get("externals") or []:
            scan.append(f"external {x}: assumed contract declared in {r.get('sidecar')}.EXTERNALS (trusted)")
        for l in r.get("unproved_lemmas") or []:
            scan.append(f"lemma {l} is used by {r['target']} without SMT proof (listed in {r.get('sidecar')}.LEMMAS)")
    scan = sorted(set(scan))
    cov["assumption_scan"] = scan
    ev = {"property_id": pid, "tier": tier if tier in ("quick", "thorough") else "quick", "seed": seed,
          "level": getattr(prop, "LEVEL", "other"), "coverage": cov,
          "assumptions": list(getattr(prop, "ASSUMPTIONS", [])) + scan + [
              "extraction drops: logging.* statements incl. their arguments, docstrings, annotations, imports",
              "termination is proved only for loops with a decreases clause"],
          "wall_s": round(time.time() - t0, 2), "violations": len(lines)}
    with open(os.path.join(OUT, "evidence", f"{pid}.json"), "w") as f:
        json.dump(ev, f, indent=1, default=str)
    print(f"property={pid} tier={tier} obligations={n_obl} discharged={n_dis} bounded_evaluations={n_eval} "
          f"nontrivial={nontrivial} known={len(known_lines)} violations={len(lines)} wall={ev['wall_s']}s")
    if n_obl == 0 and getattr(prop, "DEDUCTIVE", None) and not not_established:
        print(f"CHECKER-ERROR property={pid} zero obligations")
        return 3
    return 1 if lines else 0


def do_replay(prop, path):
    data = json.load(open(path))
    print(json.dumps({k: data.get(k) for k in ("property", "obligation", "what", "input")}, indent=1, default=str))
    if hasattr(prop, "replay") and data.get("input") is not None:
        res = prop.replay(data["input"])
        print("native replay:", res)
        return 1 if res and res.get("fails") else 0
    print("no concrete input recorded; solver output:", data.get("solver"))
    return 0
