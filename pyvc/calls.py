"""Call handling (mixin of Engine): builtins, container methods, inline helpers, contract calls, constructors."""
from __future__ import annotations

import ast
import enum
from fractions import Fraction

import z3

from .expr import (AND, NOT, OR, VChoice, VEnumerate, VEnumSym, VVec, VZip, conc_bool, is_bool, is_int, is_real, is_str, I)
from .values import (Unsupported, VConc, VDict, VFilter, VFunc, VList, VOpt, VRange, VRec, VRef, VSet, VTuple, fresh,
                     is_conc, is_leaf, ite_tree, key_sorts, key_terms, sel, shape_of, sto, tmap, to_z3, tzip, uid)

MUTATING = {"append", "pop", "add", "update", "remove", "extend", "insert", "clear", "sort", "discard", "setdefault"}


class CallMixin:
    builtins = {"len", "range", "next", "filter", "map", "int", "str", "float", "list", "set", "tuple", "sorted", "max",
                "min", "all", "any", "enumerate", "zip", "abs", "isinstance", "reversed", "sum", "bool", "dict", "frozenset",
                "round", "dir"}

    def ev_Call(self, node, st):
        fn = node.func
        # spec-level special forms
        if isinstance(fn, ast.Name):
            sf = getattr(self, "spec_" + fn.id, None)
            if sf is not None and (self.spec or fn.id in ("old",)) and fn.id not in st.env:
                return sf(node, st)
        # logging is dropped (documented extraction drop)
        if isinstance(fn, ast.Attribute) and isinstance(fn.value, ast.Name) and fn.value.id == "logging":
            return None
        if isinstance(fn, ast.Attribute) and isinstance(fn.value, ast.Name) and fn.value.id not in st.env and fn.value.id not in st.ghost \
                and type(getattr(self.realmod, fn.value.id, None)).__name__ in ("Logger", "RootLogger") \
                and fn.attr in ("debug", "info", "warning", "error", "critical", "exception", "log"):
            # the same drop for a module-level logger object (logger = logging.getLogger(__name__); logger.debug(...))
            return None
        if isinstance(fn, ast.Attribute):
            recv = self.ev(fn.value, st)
            if isinstance(recv, VConc) and type(recv.obj).__name__ == "module" and len(node.args) == 1 and isinstance(node.args[0], ast.Starred):
                # mod.f(*L) with L a list of symbolic length, f a third-party callable: the argument list itself is handed to
                # the sidecar's assumed contract of f (which must understand VStarArgs, else it rejects the call)
                v = self.ev(node.args[0].value, st)
                if isinstance(v, VList) and v.elems is not None and not isinstance(v.length, int) and not node.keywords:
                    return self.call_method(recv, fn.attr, [VStarArgs(v)], {}, node, st, recv_node=fn.value)
            args = [self.ev(a, st) for a in node.args]
            kwargs = {k.arg: self.ev(k.value, st) for k in node.keywords}
            return self.call_method(recv, fn.attr, args, kwargs, node, st, recv_node=fn.value)
        f = self.ev(fn, st)
        args = []
        for a in node.args:
            if isinstance(a, ast.Starred):
                v = self.ev(a.value, st)
                if isinstance(v, VList) and isinstance(v.length, int) and v.elems is not None:
                    # f(*L) with L a list of known length n: the n positional arguments L[0], .., L[n-1]
                    args += [sel(v.elems, z3.IntVal(k_)) for k_ in range(v.length)]
                    continue
                if not isinstance(v, VTuple):
                    raise Unsupported("star-args of a non-tuple")
                args += v.items
            else:
                args.append(self.ev(a, st))
        kwargs = {k.arg: self.ev(k.value, st) for k in node.keywords}
        return self.call_value(f, args, kwargs, node, st)

    def call_value(self, f, args, kwargs, node, st):
        if not isinstance(f, VFunc):
            if isinstance(f, VConc) and callable(f.obj):
                return self.call_external(f.obj, args, kwargs, node, st)
            # calling a non-callable value
            self.may_raise(True, "TypeError", node)
            return None
        if f.kind == "builtin":
            return getattr(self, "bi_" + f.payload)(args, kwargs, node, st)
        if f.kind == "lambda" or f.kind == "pyfunc":
            return self.apply(f, args, st, node, kwargs)
        if f.kind == "function":
            return self.call_named(f.payload, args, kwargs, node, st)
        if f.kind == "class":
            return self.construct(f.payload, args, kwargs, node, st)
        if f.kind == "method":
            qual, recv = f.payload
            return self.call_named(qual, [recv] + args, kwargs, node, st)
        raise Unsupported(f"call of {f.kind}")

    def call_external(self, obj, args, kwargs, node, st):
        name = getattr(obj, "__qualname__", getattr(obj, "__name__", repr(obj)))
        mod = getattr(obj, "__module__", "")
        key = f"{mod}.{name}"
        ext = self.externals.get(key) or self.externals.get(name)
        if ext is None:
            if isinstance(obj, type) and issubclass(obj, enum.Enum):
                return self.enum_by_value(obj, args[0], node)
            if all(is_conc(a) or isinstance(a, VConc) for a in args) and key in self.pure_externals:
                return self.from_py(obj(*[a.obj if isinstance(a, VConc) else a for a in args]))
            raise Unsupported(f"external call {key} has no assumed contract")
        self.used_externals.add(key)
        return ext(self, args, kwargs, node, st)

    def enum_by_value(self, cls, val, node):
        members = list(cls)
        if is_conc(val):
            for m in members:
                if m.value == val:
                    return VConc(m)
            self.may_raise(True, "ValueError", node)
            return VConc(members[0])
        hit = OR(*[to_z3(val) == m.value for m in members])
        self.may_raise(NOT(hit), "ValueError", node)
        return VEnumSym(cls, val, "value")

    # ------------------------------------------------------------------ named functions: contract or inline
    def resolve(self, qual):
        if qual in self.contracts:
            return "contract"
        if qual in self.inline:
            return "inline"
        return None

    def call_named(self, qual, args, kwargs, node, st):
        how = self.resolve(qual)
        if how == "contract":
            return self.call_contract(qual, args, kwargs, node, st)
        if how == "inline":
            return self.call_inline(qual, args, kwargs, node, st)
        raise Unsupported(f"call of {qual}: no contract and not declared inline")

    def call_inline(self, qual, args, kwargs, node, st):
        fdef = self.funcs[qual]
        if self.depth > 6:
            raise Unsupported("inline recursion too deep")
        st2 = st.copy()
        st2.env = {}
        self.bind_params(fdef, args, kwargs, st2)
        saved_guard, saved_mr = self.guard, self.mayraise
        self.guard = []
        self.mayraise = []
        self.depth += 1
        base_pc = len(st2.pc)
        try:
            outs = self.exec_block(fdef.body, st2, inline=True)
        finally:
            self.depth -= 1
            self.guard, self.mayraise = saved_guard, saved_mr
        res = None
        first = True
        conds = []
        for o in outs:
            cond = AND(*o.st.pc[base_pc:])
            if o.kind == "raise":
                self.may_raise(cond, o.exc, node)
                continue
            if o.kind not in ("return", "fall"):
                raise Unsupported("inline callee outcome " + o.kind)
            if any(not _same(o.st.heap.get(k), st.heap.get(k)) for k in set(o.st.heap) | set(st.heap)):
                raise Unsupported(f"inline callee {qual} writes the heap")
            val = o.value if o.kind == "return" else None
            conds.append((cond, val))
        if not conds:
            return None
        res = conds[-1][1]
        for cond, val in reversed(conds[:-1]):
            res = self.merge(cond, val, res)
        return res

    def bind_params(self, fdef, args, kwargs, st2):
        params = fdef.args.args
        defaults = fdef.args.defaults
        nd = len(defaults)
        for k, p in enumerate(params):
            if k < len(args):
                st2.env[p.arg] = args[k]
            elif p.arg in kwargs:
                st2.env[p.arg] = kwargs[p.arg]
            else:
                di = k - (len(params) - nd)
                if di < 0:
                    raise Unsupported(f"missing argument {p.arg}")
                st2.env[p.arg] = self.ev(defaults[di], st2)

    def call_contract(self, qual, args, kwargs, node, st):
        # the caller's contract may name the variant of a callee's contract to use at its call sites
        variant = getattr(self.cur_contract, "callee_variants", {}).get(qual) if not self.spec else None
        c = self.contracts[f"{qual}@{variant}" if variant else qual]
        if getattr(c, "stop_before", None):
            raise Unsupported(f"contract call {qual}: a prefix contract (stop_before) says nothing about the call's result")
        if getattr(c, "start_at", None):
            raise Unsupported(f"contract call {qual}: a tail contract (start_at) describes a part of the body, not the call")
        if self.binders and not self.spec:
            # the result of a contract call is a fresh unknown; inside a comprehension's element expression it has to be a
            # different unknown per element: done for observer contracts (call_contract_elementwise), otherwise refused
            # rather than modelled as one shared value
            if getattr(self.cur_contract, "decreases", None) is not None and qual == str(getattr(self, "cur_name", "")).split("@")[0]:
                raise Unsupported(f"recursive call of {qual} inside a comprehension: the `decreases` measure is not checked there")
            if self._observer_contract(c):
                return self.call_contract_elementwise(qual, c, args, kwargs, node, st)
            raise Unsupported(f"contract call {qual} inside a comprehension over a symbolic iterable")
        self.called_contracts.add(qual)
        pnames = list(c.params.keys())
        env = {}
        for k, p in enumerate(pnames):
            if k < len(args):
                env[p] = args[k]
            elif p in kwargs:
                env[p] = kwargs[p]
            elif p in getattr(c, "defaults", {}):
                env[p] = c.defaults[p]
            else:
                raise Unsupported(f"contract call {qual}: missing argument {p}")
        for p, shp in c.params.items():
            if isinstance(env[p], VRef) and self.shape(shp)[0] == "list" and self.classes.get(env[p].cls, {}).get("boxed_list") and not self.spec:
                # a list OBJECT passed for a parameter the callee's contract declares as a list value: the contract speaks about
                # the list's content at the time of the call.  Exact when the callee does not change that list: checked
                # syntactically on the callee's real body (no mutating method call, item / slice store, augmented assignment
                # or `del` through the parameter name; passing it on to another call is refused as well)
                fd_ = self.funcs.get(qual)
                for n_ in (ast.walk(fd_) if fd_ is not None else ()):
                    bad_ = False
                    if isinstance(n_, ast.Call):
                        if isinstance(n_.func, ast.Attribute) and isinstance(n_.func.value, ast.Name) and n_.func.value.id == p:
                            bad_ = True  # any method call on the parameter (mutating or not: kept simple)
                        bad_ = bad_ or any(isinstance(a_, ast.Name) and a_.id == p for a_ in list(n_.args) + [k_.value for k_ in n_.keywords])
                    elif isinstance(n_, (ast.Subscript, ast.Attribute)) and isinstance(n_.ctx, (ast.Store, ast.Del)):
                        b_ = n_.value
                        bad_ = isinstance(b_, ast.Name) and b_.id == p
                    elif isinstance(n_, ast.AugAssign):
                        bad_ = isinstance(n_.target, ast.Name) and n_.target.id == p
                    if bad_:
                        raise Unsupported(f"contract call {qual}: a list object is passed for {p}, which the callee may change or pass on")
                if fd_ is None:
                    raise Unsupported(f"contract call {qual}: a list object passed to a callee whose body is not available")
                env[p] = self.heap_read(st, env[p], self.classes[env[p].cls]["boxed_list"])
            env[p] = self.coerce(env[p], self.shape(shp))
            if getattr(c, "nonnull_params", False) and isinstance(env[p], VOpt) and self.shape(shp)[0] != "opt" and not self.spec:
                # opt-in of the callee's contract: an Optional value passed for a parameter declared non-Optional must be
                # shown not to be None at the call site; the contract is then used with the payload
                self.emit(f"call[{_short(node)}]->{qual}.arg-not-None.{p}", st, NOT(env[p].isnone), node, kind="call-pre", guard=list(self.guard))
                env[p] = env[p].val
        for g_, shp_ in getattr(c, "ghost_params", {}).items():
            # ghost arguments are taken, by name, from the caller's ghost state (else its variables); the caller's contract
            # may instead give the argument as a spec expression: ghost_args = {"<callee>": {"<ghost param>": "<expr>"}}
            # (needed where the value only exists in the middle of one statement, e.g. a ghost result of a nested call)
            gexpr_ = getattr(self.cur_contract, "ghost_args", {}).get(qual, {}).get(g_) if not self.spec else None
            if gexpr_ is not None:
                env[g_] = self.spec_value(gexpr_, st)
            elif g_ in st.ghost:
                env[g_] = st.ghost[g_]
            elif g_ in st.env:
                env[g_] = st.env[g_]
            else:
                from .engine import ContractError
                raise ContractError(f"contract call {qual}: ghost argument {g_} is not defined at the call site")
            env[g_] = self.coerce(env[g_], self.shape(shp_))
        pre = st.copy()
        pre.env = env
        # preconditions become obligations
        for k, text in enumerate(c.requires):
            goal = self.spec_eval(text, pre, c)
            self.emit(f"call[{_short(node)}]->{qual}.requires.{k}", st, goal, node, kind="call-pre", guard=list(self.guard))
        # termination of DIRECT recursion (opt-in): the contract under verification declares `decreases = "<int spec expression
        # over the parameters>"`.  Every call of the function under verification itself must then have a measure that is
        # non-negative and strictly smaller than the measure of the current activation (taken at the ENTRY values of the
        # parameters): a descent in a well-founded order, so the chain of self-calls is finite.  Without `decreases` nothing
        # changes (partial correctness, as before).  Mutual recursion is not covered by this obligation.
        dec_ = getattr(self.cur_contract, "decreases", None) if not self.spec else None
        if dec_ is not None and qual == str(getattr(self, "cur_name", "")).split("@")[0]:
            if st.old is None:
                raise Unsupported(f"recursive call of {qual}: no entry state to compare the `decreases` measure with")
            ent_ = st.old.copy()
            ent_.env = dict(st.old.env)
            m_call_, m_self_ = to_z3(self.spec_value(dec_, pre)), to_z3(self.spec_value(dec_, ent_))
            if not (is_int(m_call_) and is_int(m_self_)):
                raise Unsupported(f"{qual}: the `decreases` measure must be an integer")
            self.emit(f"call[{_short(node)}]->{qual}.decreases", st, AND(m_call_ >= 0, m_call_ < m_self_), node, kind="termination",
                      guard=list(self.guard))
        # frame: havoc what the callee may modify
        for m in getattr(c, "modifies", []):
            if "@" in m:
                # "Cls.f@expr": the callee may change field f of the one object denoted by expr, of no other object
                fld, expr = m.split("@", 1)
                cls_, f_ = fld.split(".")
                tgt = self.spec_value(expr, pre)
                self.heap_write(st, tgt, f_, self.fresh_value(self.field_shape(cls_, f_), uid(f"H.{cls_}.{f_}@call"), st))
                continue
            self.havoc_heap(st, m)
        # exceptional exits
        for exc, cond in self.raises_of(c).items():
            if cond == "?":
                b = z3.Bool(uid(f"raises_{exc}"))
                self.may_raise(b, exc, node)
            else:
                self.may_raise(self.spec_eval(cond, pre, c), exc, node)
        # result
        rshape = getattr(c, "returns", None)
        res = None
        if getattr(c, "returns_value", None) is not None:
            # the contract names the returned value by a spec expression over the pre-state (e.g. a ghost field)
            res = self.spec_value(c.returns_value, pre)
        elif rshape is not None:
            res = self.fresh_value(self.shape(rshape), uid("ret_" + qual.split(".")[-1]), st)
        # the callee may allocate: the allocation frontier moves forward by an unknown amount
        new_alloc = z3.Int(uid("alloc"))
        self.frontier_moves(st, st.alloc, new_alloc)
        post = st.copy()
        post.alloc = new_alloc
        post.env = dict(env)
        post.env["result"] = res
        post.old = pre
        # ghost results: an existential postcondition "exists S. ensures(result, S)" in Skolem form - the callee's proof
        # exhibits S (a ghost variable at its exits), the caller gets an unknown S (ghost name <function>_<S>)
        for g, gshp in getattr(c, "ghost_returns", {}).items():
            gv = self.fresh_value(self.shape(gshp), uid(f"ghost_{qual.split('.')[-1]}_{g}"), st)
            self.assume_wf(gv, st)
            post.ghost[g] = gv
            st.ghost[f"{qual.split('.')[-1]}_{g}"] = gv
        if res is not None:
            st.ghost[f"{qual.split('.')[-1]}_result"] = res  # ghost name for the value returned by the latest call of this function
        for text in c.ensures:
            st.assume(to_z3(self.spec_eval(text, post, c)))
        st.alloc = post.alloc
        return res

    def _observer_contract(self, c):
        """the contract declares an observer: it modifies nothing (an explicit empty `modifies`), has no ghost parameters or
        results, and returns a value of a declared shape that contains no reference (so nothing the callee may allocate is
        reachable from it)"""
        def has_ref(shp):
            return isinstance(shp, tuple) and (shp[0] == "ref" or any(has_ref(x) for x in shp[1:]))
        if getattr(c, "modifies", None) != [] or getattr(c, "ghost_params", None) or getattr(c, "ghost_returns", None):
            return False
        if getattr(c, "returns", None) is None or getattr(c, "returns_value", None) is not None:
            return False
        return not has_ref(self.shape(c.returns))

    def call_contract_elementwise(self, qual, c, args, kwargs, node, st):
        """A contract call in the element expression of a comprehension over a symbolic iterable, for an observer callee
        (_observer_contract).  Every element gets its own unknown result - a function of the comprehension variables;
        the preconditions are obligations for an arbitrary element (the comprehension variables are free in them, under the
        element guard); the exceptional exits are recorded under that guard (the comprehension closes them over its
        variable); the postconditions are assumed for every element: quantified over the comprehension variables, under
        the element guard."""
        self.called_contracts.add(qual)
        env = {}
        for k, p in enumerate(c.params.keys()):
            if k < len(args):
                env[p] = args[k]
            elif p in kwargs:
                env[p] = kwargs[p]
            elif p in getattr(c, "defaults", {}):
                env[p] = c.defaults[p]
            else:
                raise Unsupported(f"contract call {qual}: missing argument {p}")
        for p, shp in c.params.items():
            env[p] = self.coerce(env[p], self.shape(shp))
        pre = st.copy()
        pre.env = env
        for k, text in enumerate(c.requires):
            self.emit(f"call[{_short(node)}]->{qual}.requires.{k}", st, self.spec_eval(text, pre, c), node, kind="call-pre", guard=list(self.guard))
        for exc, cond in self.raises_of(c).items():
            if cond == "?":
                self.may_raise(self._under_binders(("bool",), uid(f"raises_{exc}")), exc, node)
            else:
                self.may_raise(self.spec_eval(cond, pre, c), exc, node)
        res = self._under_binders(self.shape(c.returns), uid("ret_" + qual.split(".")[-1]))
        post = st.copy()
        post.env = dict(env)
        post.env["result"] = res
        post.old = pre
        bs = list(self.binders)
        g = AND(*self.guard)
        for text in c.ensures:
            fact = z3.ForAll(bs, z3.Implies(g, to_z3(self.spec_eval(text, post, c))))
            st.assume(fact)
            if self.__dict__.get("_elem_facts") is not None:
                self._elem_facts.append(fact)  # handed to the state enclosing the comprehension (ExprMixin.comprehension)
        return res

    def raises_of(self, c):
        r = getattr(c, "raises", [])
        if isinstance(r, dict):
            return r
        return {e: "?" for e in r}

    def site(self, node):
        return f"L{getattr(node, 'lineno', 0) - self.cur_line0}"

    # ------------------------------------------------------------------ constructors
    def construct(self, cls, args, kwargs, node, st):
        info = self.classes[cls]
        fields = list(info["fields"].items())
        vals = {}
        for k, (fname, shp) in enumerate(fields):
            if k < len(args):
                vals[fname] = args[k]
            elif fname in kwargs:
                vals[fname] = kwargs[fname]
            elif fname in info.get("derived", ()):
                continue
            else:
                raise Unsupported(f"constructor {cls}: missing field {fname}")
        for f_, v_ in list(vals.items()):
            if isinstance(v_, VList) and not self.spec:
                # an empty display `[]` given for a field declared as a REFERENCE to a class that models a list object
                # ("boxed_list"): the display is a NEW list object with empty content, as for a local (new_container_object;
                # any other list value for such a field is refused there)
                o_ = self.new_container_object(self.shape(info["fields"][f_]), v_, node, st)
                if o_ is not None:
                    vals[f_] = o_
        if info.get("kind") == "record":
            if getattr(self.sidecar, "NONNULL_FIELDS", False) and not self.spec:
                # opt-in of the sidecar: an Optional value passed for a record field declared non-Optional must be shown
                # not to be None at the constructor call (obligation); the record then holds its payload
                for f_, v_ in list(vals.items()):
                    if isinstance(v_, VOpt) and self.shape(info["fields"][f_])[0] != "opt":
                        self.emit(f"construct[{_short(node)}].{f_}-not-None", st, NOT(v_.isnone), node, kind="call-pre", guard=list(self.guard))
                        vals[f_] = v_.val
            rec = VRec(cls, {f: self.coerce(v, self.shape(info["fields"][f])) for f, v in vals.items()})
            post = f"{cls}.__post_init__"
            if self.resolve(post):
                raise Unsupported("record with __post_init__")
            return rec
        # heap object
        if self.binders:
            # inside the element expression of a comprehension over a symbolic iterable: block allocation
            block = getattr(self, "alloc_block", None)
            if block is None or block["count"] or self.resolve(f"{cls}.__post_init__") or self.spec:
                raise Unsupported(f"constructor {cls} inside a comprehension (only one plain allocation per element is modelled)")
            block["count"] = 1
            for f, v in vals.items():
                block["writes"].append((cls, f, v))
            return VRef(cls, block["base"] + block["q"])
        # heap object
        ref = VRef(cls, st.alloc)
        st.alloc = st.alloc + 1 if not is_leaf(st.alloc) else z3.simplify(st.alloc + 1)
        for f, v in vals.items():
            self.heap_write(st, ref, f, v)
        post = f"{cls}.__post_init__"
        if self.resolve(post):
            self.call_named(post, [ref], {}, node, st)
        return ref

    # ------------------------------------------------------------------ methods on values
    def call_method(self, recv, name, args, kwargs, node, st, recv_node=None):
        if isinstance(recv, VRef):
            qual = f"{recv.cls}.{name}"
            if self.resolve(qual) and qual in self.funcs and self.is_property(qual) and not name.startswith("__"):
                # obj.prop(...) where prop is a (cached) property: the attribute read yields the property's VALUE, which is
                # then called (a non-callable value: TypeError) - not a method call
                val = self.call_named(qual, [recv], {}, node, st)
                return self.call_value(val, args, kwargs, node, st)
            if self.resolve(qual):
                return self.call_named(qual, [recv] + args, kwargs, node, st)
            if self.classes.get(recv.cls, {}).get("boxed_list") and qual not in self.externals:
                # (a method the sidecar models itself for this class - e.g. __enter__ of a file object whose lines are
                # iterated like a list - goes to that assumed contract below)
                return self.boxed_list_method(recv, name, args, node, st)
            if self.classes.get(recv.cls, {}).get("boxed_set") and qual not in self.externals:
                return self.boxed_set_method(recv, name, args, node, st)
            if self.classes.get(recv.cls, {}).get("boxed_valueset") and qual not in self.externals:
                return self.boxed_valueset_method(recv, name, args, node, st)
            ext = self.externals.get(qual)
            if ext is not None:
                # method of an object of a third-party class, given by an assumed contract of the sidecar (trusted base).
                # Such a model may write the heap, which the syntactic loop-havoc analysis cannot see: refused in loops
                # unless the model declares itself pure.
                if not getattr(ext, "pure", False) and (self.enclosing_loop.get(id(getattr(self, "cur_stmt", None))) is not None
                                                        or getattr(self, "binders", ())):
                    # ... or names the heap fields it may write (attribute `writes`) and every loop around the statement
                    # declares them in its contract (`writes`): those fields are then unknown at the loop head like any field
                    # the body assigns (st_For / st_While) - the same protocol as for `x += y` through Cls.__iadd__ (st_AugAssign)
                    fields_ = getattr(ext, "writes", None)
                    k_ = self.enclosing_loop.get(id(getattr(self, "cur_stmt", None)))
                    if fields_ is None or getattr(self, "binders", ()) or k_ is None:
                        raise Unsupported(f"heap-writing external method {qual} called inside a loop / comprehension")
                    while k_ is not None:
                        lc_ = self.cur_loops.get(k_)
                        declared = set(lc_.get("writes", ())) if isinstance(lc_, dict) else set()
                        if not set(fields_) <= declared:
                            raise Unsupported(f"{qual} is called in loop #{k_}, whose contract does not declare `writes` for {fields_}")
                        k_ = getattr(self, "loop_parent", {}).get(k_)
                self.used_externals.add(qual)
                return ext(self, [recv] + args, kwargs, node, st)
            # attribute holding a callable? not supported; attribute value called
            val = self.attr_of(recv, name, node, st)
            return self.call_value(val, args, kwargs, node, st)
        if isinstance(recv, VRec):
            qual = f"{recv.cls}.{name}"
            if self.resolve(qual):
                return self.call_named(qual, [recv] + args, kwargs, node, st)
            if name == "get" and self.classes.get(recv.cls, {}).get("dict_keys") and 1 <= len(args) <= 2 and not kwargs \
                    and isinstance(args[0], str):
                # a dict with a fixed set of string keys, modelled as a record (class entry "dict_keys": True - the dict has
                # exactly the record's field names as keys): d.get(k, default) is d[k] for a key, else the default
                return recv.fields[args[0]] if args[0] in recv.fields else (args[1] if len(args) > 1 else None)
            ext = self.externals.get(qual)
            if ext is not None and getattr(ext, "pure", False):
                # method of an immutable value object of a third-party class, given by an assumed contract of the sidecar
                # (trusted base, listed like every external); it must declare itself pure (no heap write)
                self.used_externals.add(qual)
                return ext(self, [recv] + args, kwargs, node, st)
            raise Unsupported(f"method {qual}")
        if isinstance(recv, VFunc) and recv.kind == "class":
            qual = f"{recv.payload}.{name}"
            if self.resolve(qual):  # staticmethod
                return self.call_named(qual, args, kwargs, node, st)
            raise Unsupported(f"static method {qual}")
        if isinstance(recv, VConc):
            obj = recv.obj
            if isinstance(obj, str):
                return self.str_method(obj, name, args, node, st)
            if isinstance(obj, enum.Enum) and getattr(self.realmod, type(obj).__name__, None) is type(obj):
                # method of an Enum class defined in the module under verification, called on a concrete member
                qual = f"{type(obj).__name__}.{name}"
                if qual in self.funcs and self.resolve(qual):
                    return self.call_named(qual, [recv] + args, kwargs, node, st)
            if isinstance(obj, dict) and name == "get" and 1 <= len(args) <= 2 and not kwargs:
                return self.conc_dict_get(obj, args[0], args[1] if len(args) > 1 else None, node)
            attr = getattr(obj, name)
            return self.call_value(self.from_py(attr) if not callable(attr) else VConc(attr), args, kwargs, node, st)
        if isinstance(recv, VChoice):
            # a guarded choice between concrete objects: the same call on each alternative, each under its condition
            self.guard.append(to_z3(recv.c))
            try:
                ra = self.call_method(recv.a, name, args, kwargs, node, st, recv_node)
                self.guard[-1] = NOT(recv.c)
                rb = self.call_method(recv.b, name, args, kwargs, node, st, recv_node)
            finally:
                self.guard.pop()
            return self.merge(recv.c, ra, rb)
        if isinstance(recv, VList):
            return self.list_method(recv, name, args, node, st, recv_node)
        if isinstance(recv, VDict):
            return self.dict_method(recv, name, args, node, st, recv_node)
        if isinstance(recv, VSet):
            return self.set_method(recv, name, args, node, st, recv_node)
        if is_str(recv):
            return self.str_method(recv, name, args, node, st)
        if isinstance(recv, VOpt):
            self.may_raise(recv.isnone, "AttributeError", node)
            return self.call_method(recv.val, name, args, kwargs, node, st, recv_node)
        if recv is None:
            self.may_raise(True, "AttributeError", node)
            return None
        if isinstance(recv, VFunc) and recv.kind == "builtin" and recv.payload == "dict" and name == "fromkeys" and len(args) == 1 and not kwargs:
            # dict.fromkeys(xs) == {x: None for x in xs}: the keys of xs in first-occurrence order, every value None
            # (evaluated as that dict comprehension over the already evaluated argument)
            tmp = "fromkeys!it"
            comp = ast.DictComp(key=ast.Name(id="fromkeys!k", ctx=ast.Load()), value=ast.Constant(value=None),
                                generators=[ast.comprehension(target=ast.Name(id="fromkeys!k", ctx=ast.Store()),
                                                              iter=ast.Name(id=tmp, ctx=ast.Load()), ifs=[], is_async=0)])
            st.env[tmp] = args[0]
            try:
                return self.ev_DictComp(ast.copy_location(comp, node), st)
            finally:
                del st.env[tmp]
        raise Unsupported(f"method {name} on {type(recv).__name__} at line {node.lineno}")

    def list_method(self, L, name, args, node, st, recv_node):
        if name == "copy":
            return L
        if name == "append":
            x = args[0]
            if L.elems is None:
                new = self.list_literal([x])
            else:
                new = VList(_inc(L.length), sto(L.elems, [to_z3(L.length)], self.coerce(x, L.eshape)), L.eshape)
            self.assign_to(recv_node, new, st, node)
            return None
        if name == "extend" and isinstance(args[0], VList):
            new = self.list_concat(L, self.coerce(args[0], ("list", L.eshape)) if L.elems is not None else args[0])
            self.assign_to(recv_node, new, st, node)
            return None
        if name == "pop":
            if args:
                raise Unsupported("pop(i)")
            if L.elems is None:
                self.may_raise(True, "IndexError", node)
                return None
            self.may_raise(to_z3(L.length) <= 0, "IndexError", node)
            n1 = L.length - 1 if isinstance(L.length, int) else L.length - 1
            val = sel(L.elems, to_z3(n1))
            self.assign_to(recv_node, VList(n1, L.elems, L.eshape), st, node)
            return val
        if name == "index" and len(args) == 1 and L.elems is not None and not getattr(self, "binders", ()):
            # L.index(x): the least position whose element equals x; ValueError when there is none
            x = args[0]
            n = to_z3(L.length)
            r, q = z3.Int(uid("index")), z3.Int(uid("q"))
            hit = lambda t: to_z3(self.eq(sel(L.elems, t), x))
            found = z3.Exists([q], z3.And(q >= 0, q < n, hit(q)))
            self.may_raise(NOT(found), "ValueError", node)
            st.assume(z3.Implies(AND(*self.guard, found),
                                 z3.And(r >= 0, r < n, hit(r), z3.ForAll([q], z3.Implies(z3.And(q >= 0, q < r), z3.Not(hit(q)))))))
            return r
        if name == "remove" and len(args) == 1 and L.elems is not None and not getattr(self, "binders", ()):
            # L.remove(x): deletes the FIRST element equal to x (later elements move down by one); ValueError when none
            x = args[0]
            n = to_z3(L.length)
            r, q = z3.Int(uid("remove")), z3.Int(uid("q"))
            hit = lambda t: to_z3(self.eq(sel(L.elems, t), x))
            found = z3.Exists([q], z3.And(q >= 0, q < n, hit(q)))
            self.may_raise(NOT(found), "ValueError", node)
            st.assume(z3.Implies(AND(*self.guard, found),
                                 z3.And(r >= 0, r < n, hit(r), z3.ForAll([q], z3.Implies(z3.And(q >= 0, q < r), z3.Not(hit(q)))))))
            new = fresh(("list", L.eshape), uid("removed"))
            eqs = []
            tzip(lambda a_, b_: (eqs.append(a_ == b_), a_)[1], sel(new.elems, q),
                 ite_tree(q < r, sel(L.elems, q), sel(L.elems, q + 1)))
            st.assume(z3.Implies(AND(*self.guard, found),
                                 z3.And(to_z3(new.length) == n - 1, z3.ForAll([q], z3.Implies(z3.And(q >= 0, q < n - 1), z3.And(*eqs))))))
            # the same fact read from the old list's side (element q > r of the old list is element q - 1 of the new one):
            # logically implied by the clause above, stated so that a term old[q] triggers it
            eqs2 = []
            tzip(lambda a_, b_: (eqs2.append(a_ == b_), a_)[1], sel(new.elems, q - 1), sel(L.elems, q))
            st.assume(z3.Implies(AND(*self.guard, found), z3.ForAll([q], z3.Implies(z3.And(q > r, q < n), z3.And(*eqs2)))))
            self.last_remove = r
            self.assign_to(recv_node, new, st, node)
            return None
        if name == "index" or name == "count":
            raise Unsupported("list." + name)
        raise Unsupported(f"list.{name}")

    def boxed_list_method(self, ref, name, args, node, st):
        """A Python list object with identity (aliasing matters): class entry {"boxed_list": "<field>"}; the list value
        lives in that heap field of the reference, reads go through the heap, mutations write the field back."""
        fld = self.classes[ref.cls]["boxed_list"]
        L = self.heap_read(st, ref, fld)
        if name == "__len__" and not args:
            return L.length
        if name == "__getitem__" and len(args) == 1:
            return self.index(L, args[0], node, st)
        if name == "__setitem__" and len(args) == 2:
            i = self.norm_index(args[0], L.length, node)
            self.heap_write(st, ref, fld, VList(L.length, sto(L.elems, [to_z3(i)], self.coerce(args[1], L.eshape)), L.eshape))
            return None
        if name == "__contains__" and len(args) == 1:
            return self.contains(L, args[0], node)
        if name.startswith("__"):
            raise Unsupported(f"{name} of a list object")
        return self.list_method(L, name, args, node, st, BoxTarget(ref, fld))

    def boxed_set_method(self, ref, name, args, node, st):
        """A Python set object with identity (class entry {"boxed_set": "<field>"}), the counterpart of boxed_list_method:
        the set value lives in that heap field of the reference; add / discard / remove write the field back."""
        fld = self.classes[ref.cls]["boxed_set"]
        S = self.heap_read(st, ref, fld)
        if name == "__contains__" and len(args) == 1:
            return self.contains(S, args[0], node)
        if name in ("add", "discard", "remove") and len(args) == 1:
            return self.set_method(S, name, args, node, st, BoxTarget(ref, fld))
        raise Unsupported(f"{name} of a set object")

    def boxed_valueset_method(self, ref, name, args, node, st):
        """A Python set object with identity whose members have no key sort in the engine (e.g. frozen dataclass values with
        list-valued fields): class entry {"boxed_valueset": "<field>"}, the field holds the LIST of the values added so far
        (in any order, repetitions allowed).  `x in s` is true exactly when x == e for one of the values e added (Python:
        hash and == of a member; the dataclass-generated / builtin hashes are consistent with ==), so membership is list
        membership; add / update append.  Nothing else (len, iteration, remove, truth value, ==) is modelled."""
        fld = self.classes[ref.cls]["boxed_valueset"]
        L = self.heap_read(st, ref, fld)
        if name == "__contains__" and len(args) == 1:
            return self.contains(L, args[0], node)
        if name == "add" and len(args) == 1:
            return self.list_method(L, "append", args, node, st, BoxTarget(ref, fld))
        if name == "update" and len(args) == 1 and isinstance(args[0], VList):
            if args[0].elems is None:
                return None
            return self.list_method(L, "extend", args, node, st, BoxTarget(ref, fld))
        raise Unsupported(f"{name} of a set object kept as the list of its values")

    def set_method(self, S, name, args, node, st, recv_node):
        if name == "add":
            ks = key_terms(args[0])
            self.assign_to(recv_node, VSet(S.kshape, _store_multi(S.mem, ks, z3.BoolVal(True))), st, node)
            return None
        if name in ("discard", "remove"):
            ks = key_terms(args[0])
            if name == "remove":
                self.may_raise(NOT(sel(S.mem, *ks)), "KeyError", node)
            self.assign_to(recv_node, VSet(S.kshape, _store_multi(S.mem, ks, z3.BoolVal(False))), st, node)
            return None
        raise Unsupported(f"set.{name}")

    def dict_method(self, D, name, args, node, st, recv_node):
        if name in ("items", "keys", "values"):
            return VDictView(D, name)
        if name == "get" and isinstance(args[0], VOpt) and D.kshape[0] != "opt":
            # Optional key against keys that are never None: None is absent (-> default), otherwise its payload
            key, dflt = args[0], (args[1] if len(args) > 1 else None)
            hit = AND(NOT(key.isnone), sel(D.dom, *key_terms(key.val)))
            return self.merge(hit, sel(D.vals, *key_terms(key.val)), dflt)
        if name == "get" and isinstance(args[0], VTuple) and D.kshape[0] == "tuple" and len(args[0].items) == len(D.kshape[1]) \
                and any((is_str(x_) and s_[0] == "ref") or (isinstance(x_, VRef) and s_ == ("str",)) for x_, s_ in zip(args[0].items, D.kshape[1])):
            # a tuple key with a string where every key of the dict has an object (or the other way round): a str and an
            # object never compare equal (same rule as ExprMixin.eq for values of different kinds), so the key is absent
            return args[1] if len(args) > 1 else None
        if name == "get":
            ks = key_terms(args[0])
            dflt = args[1] if len(args) > 1 else None
            return self.merge(sel(D.dom, *ks), sel(D.vals, *ks), dflt)
        ext = self.externals.get("dict." + name)
        if ext is not None and not getattr(self, "binders", ()):
            # a dict method given by an assumed contract of the sidecar (trusted base, listed like any other external);
            # a mutating one stores the new dict value back through the receiver's access path itself (node.func.value)
            self.used_externals.add("dict." + name)
            return ext(self, [D] + list(args), {}, node, st)
        raise Unsupported(f"dict.{name}")

    def conc_dict_get(self, obj, key, default, node):
        """d.get(key, default) on a constant dict of the real module (table lookup with a symbolic key)"""
        if is_conc(key) and key is not None:
            return self.from_py(obj[key]) if key in obj else default
        res = default
        for k, v in reversed(list(obj.items())):
            val = self.from_py(v)
            if isinstance(res, VList) and res.elems is None and isinstance(val, VList) and val.elems is not None:
                res = VList(0, fresh(val.eshape, uid("empty"), (I,)), val.eshape)  # the literal [] as an empty list of that shape
            res = self.merge(self.eq(self.from_py(k), key), val, res)
        return res

    def str_method(self, s, name, args, node, st):
        if isinstance(s, str) and all(isinstance(a, (str, int)) for a in args):
            if name in ("startswith", "endswith", "strip", "lstrip", "rstrip", "upper", "lower", "isdigit", "isspace",
                        "split", "join", "replace", "isalpha", "isupper", "islower", "format"):
                r = getattr(s, name)(*args)
                return self.from_py(r) if not isinstance(r, list) else self.list_literal(r, ("str",))
        z = to_z3(s)
        if name == "startswith":
            return z3.PrefixOf(to_z3(args[0]), z)
        if name == "endswith":
            return z3.SuffixOf(to_z3(args[0]), z)
        if name == "isdigit":
            # ASCII digits only (non-ASCII excluded by precondition)
            return self.all_chars_in(z, "0123456789", nonempty=True)
        if name in ("lower", "upper"):
            return self.case_map(z, name)
        if name == "join" and isinstance(s, str):
            it = args[0]
            conc = self.conc_iter(it)
            if conc is not None:
                parts = []
                for k, x in enumerate(conc):
                    if k:
                        parts.append(s)
                    parts.append(x)
                return self.concat_str(parts)
            if s == "" and isinstance(it, VList):
                return it if it.eshape == ("char",) else VJoined(it)
            if s == "" and is_str(it):
                return it  # "".join(t) for a str t: iterating t yields its characters in order, whose concatenation is t
            if self.externals.get("str.join") is None:  # (else: the sidecar's assumed contract of str.join, below)
                raise Unsupported("join over a symbolic iterable")
        ext = self.externals.get("str." + name)
        if ext is not None:
            # a str method given by an assumed contract of the sidecar (trusted base, listed like any other external)
            self.used_externals.add("str." + name)
            return ext(self, [s] + list(args), {}, node, st)
        if name in ("ljust", "rjust") and len(args) == 1 and isinstance(args[0], int) and not isinstance(args[0], bool):
            return self.str_pad(z, args[0], left=(name == "rjust"))
        if name == "isalpha" and not args and self.str_len_bound(z) == 1:
            # str.isalpha() of a string of at most one character: False when empty; for an ASCII character exactly the
            # letters A-Z / a-z; for any other character an uninterpreted predicate of the string (nothing assumed)
            code = z3.StrToCode(z)
            ascii_alpha = z3.Or(z3.And(code >= 65, code <= 90), z3.And(code >= 97, code <= 122))
            other = self.ufun("py_isalpha", z3.StringSort(), z3.BoolSort())(z)
            return z3.If(z3.Length(z) == 0, z3.BoolVal(False), z3.If(code < 128, ascii_alpha, other))
        raise Unsupported(f"str.{name} at line {getattr(node, 'lineno', '?')}")

    def str_pad(self, z, width, left):
        """s.rjust(width) (left=True: blanks are added on the left) / s.ljust(width) with the default fill character:
        s itself when len(s) >= width, else s with width - len(s) blanks added on that side (constant width <= 256)"""
        if not (0 <= width <= 256):
            raise Unsupported("ljust/rjust with a width outside 0..256")
        if isinstance(z, str):
            return z.rjust(width) if left else z.ljust(width)
        if z3.is_string_value(z):
            t = z.as_string()
            if all(32 <= ord(ch_) < 127 for ch_ in t):
                return z3.StringVal(t.rjust(width) if left else t.ljust(width))
        ln = z3.Length(z)
        blanks = z3.SubString(z3.StringVal(" " * width), 0, width - ln)
        return z3.If(ln >= width, z, z3.Concat(blanks, z) if left else z3.Concat(z, blanks))

    def all_chars_in(self, z, alphabet, nonempty=False):
        if self.str_len_bound(z) == 1:
            c = OR(*[z == ch for ch in alphabet])
            return c
        rng = z3.Star(z3.Union(*[z3.Re(ch) for ch in alphabet])) if len(alphabet) > 1 else z3.Star(z3.Re(alphabet))
        if nonempty:
            rng = z3.Plus(z3.Union(*[z3.Re(ch) for ch in alphabet]))
        return z3.InRe(z, rng)

    def str_len_bound(self, z):
        """1 if z is syntactically a one-character substring, else None"""
        if z3.is_app(z) and z.decl().kind() == z3.Z3_OP_SEQ_EXTRACT:
            ln = z.arg(2)
            if z3.is_int_value(ln) and ln.as_long() == 1:
                return 1
        if z3.is_string_value(z) and len(z.as_string()) == 1:
            return 1
        return None

    def case_map(self, z, which):
        """ASCII case map of a string of length <= 1 (enough for the code under contract); longer: Unsupported"""
        if self.str_len_bound(z) != 1 and getattr(self.sidecar, "CASE_MAP_UNINTERPRETED", False):
            # opt-in of the sidecar: a string of unknown length.  Exactly Python's result where that is elementary - a single
            # ASCII character (str.to_code is -1 unless the length is 1; code-point arithmetic as below) - and an
            # uninterpreted function py_upper / py_lower of the string everywhere else (nothing is assumed about it)
            code = z3.StrToCode(z)
            other = self.ufun("py_" + which, z3.StringSort(), z3.StringSort())(z)
            if which == "lower":
                one = z3.If(z3.And(code >= 65, code <= 90), z3.StrFromCode(code + 32), z)
            else:
                one = z3.If(z3.And(code >= 97, code <= 122), z3.StrFromCode(code - 32), z)
            return z3.If(z3.And(code >= 0, code < 128), one, other)
        if self.str_len_bound(z) != 1:
            raise Unsupported("case map of a multi-character symbolic string")
        # code-point arithmetic (str.to_code is -1 on the empty string, which falls outside both ranges)
        code = z3.StrToCode(z)
        if which == "lower":
            return z3.If(z3.And(code >= 65, code <= 90), z3.StrFromCode(code + 32), z)
        return z3.If(z3.And(code >= 97, code <= 122), z3.StrFromCode(code - 32), z)

    # ------------------------------------------------------------------ builtins
    def bi_len(self, args, kw, node, st):
        v = args[0]
        if isinstance(v, str):
            return len(v)
        if is_leaf(v) and v.sort() == z3.StringSort():
            return z3.Length(v)
        if isinstance(v, VList):
            return v.length
        if isinstance(v, VTuple):
            return len(v.items)
        if isinstance(v, VConc):
            return len(v.obj)
        if isinstance(v, VRef):
            return self.call_method(v, "__len__", [], {}, node, st)
        if isinstance(v, VRange):
            n = v.hi - v.lo if isinstance(v.hi, int) and isinstance(v.lo, int) else to_z3(v.hi) - to_z3(v.lo)
            return max(n, 0) if isinstance(n, int) else z3.If(n > 0, n, z3.IntVal(0))
        if isinstance(v, VDict) and v.order is not None:
            return v.order.length
        if isinstance(v, VSet) and getattr(self.sidecar, "SET_CARD_FUNCTION", False) and v.kshape == ("int",):
            return self.set_card_fn(v)
        if isinstance(v, VSet) and not getattr(self, "binders", ()):
            # cardinality of a (finite) set = length of a duplicate-free enumeration of exactly its members
            return self.set_enumeration(v, st).length
        raise Unsupported(f"len of {type(v).__name__}")

    def set_card(self, S):
        """the cardinality of the set value S (one unknown per membership term: every duplicate-free enumeration of the
        same set has this length)"""
        cache = self.__dict__.setdefault("_card_cache", {})
        key = S.mem.get_id()
        if key not in cache:
            cache[key] = (z3.Int(uid("card")), S.mem)
        return cache[key][0]

    def set_card_fn(self, S):
        """len(S) of a set of integers as an uninterpreted function `len.set` of the set value (opt-in of the sidecar:
        SET_CARD_FUNCTION; usable under comprehension / map binders, where a per-call unknown would be wrong).  Only what
        holds of every len() is assumed: it is not negative, and at least 1 for a set that has a member; sidecars add what
        else they need as listed lemmas."""
        new = "len.set" not in self.ufuns
        f = self.ufun("len.set", z3.ArraySort(z3.IntSort(), z3.BoolSort()), z3.IntSort())
        if new:
            a = z3.Const("len.set!S", z3.ArraySort(z3.IntSort(), z3.BoolSort()))
            self.global_facts.append(z3.ForAll([a], f(a) >= 0, patterns=[f(a)]))
            x = z3.Int("len.set!x")  # ... and a set with a member has at least one element
            self.global_facts.append(z3.ForAll([a, x], z3.Implies(z3.Select(a, x), f(a) >= 1), patterns=[z3.MultiPattern(f(a), z3.Select(a, x))]))
        return f(S.mem)

    def set_enumeration(self, S, st):
        """a fresh duplicate-free list of exactly the members of S, in an arbitrary (unknown) order"""
        seq = fresh(("list", S.kshape), uid("enum"))
        n = to_z3(seq.length)
        q, w = z3.Int(uid("q")), z3.Int(uid("w"))
        kq, kw_ = key_terms(sel(seq.elems, q)), key_terms(sel(seq.elems, w))
        st.assume(z3.And(n >= 0, n == self.set_card(S)))
        st.assume(z3.ForAll([q], z3.Implies(z3.And(q >= 0, q < n), sel(S.mem, *kq))))
        st.assume(z3.ForAll([q, w], z3.Implies(z3.And(q >= 0, q < w, w < n), z3.Or(*[a_ != b_ for a_, b_ in zip(kq, kw_)]))))
        ks = [z3.Const(uid("k"), srt) for srt in key_sorts(S.kshape)]
        st.assume(z3.ForAll(ks, z3.Implies(sel(S.mem, *ks), z3.Exists([q], z3.And(q >= 0, q < n, *[a_ == b_ for a_, b_ in zip(kq, ks)])))))
        # a consequence of the three facts above, spelled out because it needs two instantiations of the covering clause:
        # a set with at most one element has no two different members (both would sit at position 0)
        ks2 = [z3.Const(uid("k"), srt) for srt in key_sorts(S.kshape)]
        st.assume(z3.Implies(n <= 1, z3.ForAll(ks + ks2, z3.Implies(z3.And(sel(S.mem, *ks), sel(S.mem, *ks2)),
                                                                   z3.And(*[a_ == b_ for a_, b_ in zip(ks, ks2)])))))
        return seq

    def bi_range(self, args, kw, node, st):
        if len(args) == 1:
            return VRange(0, args[0])
        if len(args) == 2:
            return VRange(args[0], args[1])
        raise Unsupported("range with step")

    def bi_filter(self, args, kw, node, st):
        f, base = args
        if isinstance(base, VFilter):
            return VFilter(base.preds + [f], base.base)
        return VFilter([f], base)

    def bi_next(self, args, kw, node, st):
        it = args[0]
        if isinstance(it, VFilter) and isinstance(it.base, VRange):
            lo, hi = to_z3(it.base.lo), to_z3(it.base.hi)
            r = z3.Int(uid("next"))
            q = z3.Int(uid("q"))
            self.guard.append(z3.And(q >= lo, q < hi))
            try:
                pq = to_z3(AND(*[self.truth(self.apply(f, [q], st, node)) for f in it.preds]))
            finally:
                self.guard.pop()
            self.close_mayraise(q)
            pr = z3.substitute(pq, (q, r))
            exists = z3.Exists([q], z3.And(q >= lo, q < hi, pq))
            self.may_raise(NOT(exists), "StopIteration", node)
            st.assume(z3.Implies(AND(*self.guard, exists),
                                 z3.And(r >= lo, r < hi, pr, z3.ForAll([q], z3.Implies(z3.And(q >= lo, q < r), z3.Not(pq))))))
            return r
        raise Unsupported("next() of this iterator")

    def witness_hint(self, ex, q):
        pass

    def bi_int(self, args, kw, node, st):
        v = args[0]
        if isinstance(v, int):
            return int(v)
        if is_int(v):
            return v
        if isinstance(v, str):
            try:
                return int(v)
            except ValueError:
                self.may_raise(True, "ValueError", node)
                return 0
        if is_str(v):
            return self.ext_int_of_str(v, node, st)
        if is_real(v) and is_leaf(v) and len(args) == 1:
            # int(x) of a (finite) real: truncation towards zero (floats are modelled as reals, no nan / inf)
            return z3.If(v >= 0, z3.ToInt(v), -z3.ToInt(-v))
        if len(args) == 1 and not kw and (v is None or isinstance(v, VOpt)):
            # int(None) raises TypeError ("int() argument must be a string, a bytes-like object or a real number, not
            # 'NoneType'"); an Optional value: that when it is None, otherwise int() of its payload
            if v is None:
                self.may_raise(True, "TypeError", node)
                return 0
            self.may_raise(v.isnone, "TypeError", node)
            self.guard.append(NOT(v.isnone))
            try:
                return self.bi_int([v.val], kw, node, st)
            finally:
                self.guard.pop()
        r = self.conv_dunder("__int__", v, node, st) if len(args) == 1 and not kw else self._NO_CONV
        if r is not self._NO_CONV:
            return r
        raise Unsupported("int() of this value")

    _NO_CONV = object()

    def conv_dunder(self, dunder, v, node, st):
        """int(x) / float(x) / str(x) for x an object (or immutable value object) of a third-party class whose special method
        `Cls.__int__` / `Cls.__float__` / `Cls.__str__` the sidecar supplies as an assumed external (trusted base, listed like
        every external): the conversion is x.__int__() etc.  For an Optional x: int(None) / float(None) raise TypeError and
        str(None) is 'None'; otherwise the conversion of the payload.  _NO_CONV: not such a value (the caller goes on)."""
        if isinstance(v, VOpt):
            self.guard.append(NOT(v.isnone))
            try:
                r = self.conv_dunder(dunder, v.val, node, st)
            finally:
                self.guard.pop()
            if r is self._NO_CONV:
                return r
            if dunder == "__str__":
                return self.merge(v.isnone, "None", r)
            self.may_raise(v.isnone, "TypeError", node)
            return r
        if isinstance(v, (VRef, VRec)):
            ext = self.externals.get(f"{v.cls}.{dunder}")
            if ext is not None and getattr(ext, "pure", False):
                self.used_externals.add(f"{v.cls}.{dunder}")
                return ext(self, [v], {}, node, st)
        return self._NO_CONV

    def ext_int_of_str(self, v, node, st):
        """int(s): ValueError unless s (after stripping) is an optionally signed decimal; value = uninterpreted py_int(s)
        tied to str.to_int on plain digit strings."""
        z = to_z3(v)
        digits = z3.Plus(z3.Range("0", "9"))
        ws = z3.Star(z3.Union(z3.Re(" "), z3.Re("\t"), z3.Re("\n"), z3.Re("\r"), z3.Re("\x0b"), z3.Re("\x0c")))
        us = z3.Concat(digits, z3.Star(z3.Concat(z3.Re("_"), digits)))
        # (plain digit strings are accepted: the first disjunct is included in the second - stated so that the common case
        # needs no reasoning about regular languages)
        ok = z3.Or(z3.InRe(z, digits), z3.InRe(z, z3.Concat(ws, z3.Option(z3.Union(z3.Re("+"), z3.Re("-"))), us, ws)))
        self.may_raise(NOT(ok), "ValueError", node)
        f = self.ufun("py_int", z3.StringSort(), z3.IntSort())
        st.assume(z3.Implies(z3.InRe(z, digits), f(z) == z3.StrToInt(z)))
        # a leading minus sign negates: int("-" + d) == -int(d) for a plain digit string d
        tail = z3.SubString(z, 1, z3.Length(z) - 1)
        st.assume(z3.Implies(z3.And(z3.PrefixOf(z3.StringVal("-"), z), z3.InRe(tail, digits)), f(z) == -z3.StrToInt(tail)))
        return f(z)

    def ufun(self, name, *sorts):
        if name not in self.ufuns:
            self.ufuns[name] = z3.Function(name, *sorts)
        return self.ufuns[name]

    def bi_str(self, args, kw, node, st):
        if len(args) == 1 and not kw and isinstance(args[0], (VRef, VRec, VOpt)):
            r = self.conv_dunder("__str__", args[0], node, st)  # str(x) through a sidecar external Cls.__str__ (see conv_dunder)
            if r is not self._NO_CONV:
                return r
        return self.to_str(args[0])

    def bi_bool(self, args, kw, node, st):
        return self.truth(args[0])

    def bi_abs(self, args, kw, node, st):
        v = args[0]
        if is_conc(v):
            return abs(v)
        return z3.If(v >= 0, v, -v)

    def bi_list(self, args, kw, node, st):
        if not args:
            return VList(0, None, None)
        v = args[0]
        if isinstance(v, VList):
            return v
        conc = self.conc_iter(v)
        if conc is not None:
            return self.list_literal(conc)
        if isinstance(v, VRange):
            q = z3.Int(uid("q"))
            lo = to_z3(v.lo)
            return VList(self.bi_len([v], {}, node, st), z3.Lambda([q], q + lo), ("int",))
        if isinstance(v, VDictView) and v.which == "keys" and v.d.order is not None:
            return v.d.order
        if isinstance(v, VDictView) and v.which == "values" and v.d.order is not None:
            q = z3.Int(uid("q"))
            at = sel(v.d.vals, *key_terms(sel(v.d.order.elems, q)))  # values in insertion order of their keys
            if self.binders:
                return VList(v.d.order.length, tmap(lambda leaf: z3.Lambda([q], leaf), at), v.d.vshape)
            # a new list constrained element by element (keeps later element terms small: out[q] instead of the nested
            # key-indexed select it stands for)
            from .values import leaves
            out = fresh(("list", v.d.vshape), uid("values"))
            st.assume(to_z3(out.length) == to_z3(v.d.order.length))
            st.assume(z3.ForAll([q], z3.Implies(z3.And(q >= 0, q < to_z3(v.d.order.length)),
                                                z3.And(*[a_ == b_ for a_, b_ in zip(leaves(sel(out.elems, q)), leaves(at))]))))
            return out
        if isinstance(v, VFilter) and isinstance(v.base, VList) and v.base.elems is not None:
            preds = v.preds
            return self.materialize_filter(v.base, lambda x: AND(*[self.truth(self.apply(f, [x], st, node)) for f in preds]),
                                           lambda x: x, st, node)
        if isinstance(v, VSet) and not getattr(self, "binders", ()):
            # list(<set>): the members in the set's iteration order - unspecified by the language (hash seeds, insertion
            # history): an arbitrary duplicate-free enumeration of exactly the members
            return self.set_enumeration(v, st)
        raise Unsupported(f"list() of {type(v).__name__}")

    def bi_tuple(self, args, kw, node, st):
        conc = self.conc_iter(args[0])
        if conc is None and isinstance(args[0], VList) and args[0].elems is not None and getattr(self.sidecar, "TUPLE_AS_SEQUENCE", False):
            # opt-in modelling decision of the sidecar (listed there): a variable-length tuple is the same immutable
            # sequence value as the list it is built from (values are immutable in the engine); the sidecar vouches
            # that the code under contract never observes the list/tuple type difference (==, +, isinstance)
            return args[0]
        if conc is None:
            raise Unsupported("tuple() of a symbolic iterable")
        return VTuple(conc)

    def bi_set(self, args, kw, node, st):
        if not args:
            return VEmptySet()
        v = args[0]
        if isinstance(v, VList):
            if v.elems is None:
                return VEmptySet()
            ks = [z3.Const(uid("k"), s) for s in key_sorts(v.eshape)]
            q = z3.Int(uid("q"))
            body = z3.Exists([q], z3.And(q >= 0, q < to_z3(v.length), *[a == b for a, b in zip(key_terms(sel(v.elems, q)), ks)]))
            mem = body
            for k in reversed(ks):
                mem = z3.Lambda([k], mem)
            return VSet(v.eshape, mem)
        if isinstance(v, VRange):
            k = z3.Int(uid("k"))
            return VSet(("int",), z3.Lambda([k], z3.And(k >= to_z3(v.lo), k < to_z3(v.hi))))
        raise Unsupported("set() of this value")

    def bi_enumerate(self, args, kw, node, st):
        return VEnumerate(args[0], args[1] if len(args) > 1 else kw.get("start", 0))

    def bi_zip(self, args, kw, node, st):
        return VZip(args)

    def bi_reversed(self, args, kw, node, st):
        v = args[0]
        if isinstance(v, VList):
            q = z3.Int(uid("q"))
            n = to_z3(v.length)
            return VList(v.length, tmap(lambda x: z3.Lambda([q], z3.Select(x, n - 1 - q)), v.elems), v.eshape)
        conc = self.conc_iter(v)
        if conc is not None:
            return self.list_literal(list(reversed(conc)))
        raise Unsupported("reversed()")

    def bi_isinstance(self, args, kw, node, st):
        if len(args) == 2 and isinstance(args[1], VFunc) and args[1].kind == "builtin" and args[1].payload == "str" and is_str(args[0]):
            return True  # a value of the engine's string sort is a Python str
        if len(args) == 2 and isinstance(args[0], (VRef, VRec)) and isinstance(self.classes.get(args[0].cls, {}).get("isinstance"), dict):
            # an object of a third-party class modelled by the sidecar: its class entry declares ("isinstance": {"<class>": bool},
            # keys `str` for the builtin, `module.QualName` for a class object) of which of the classes the code tests for it is an
            # instance - part of the sidecar's model of that class (trusted base); a class that is not declared is refused
            c_ = args[1]
            nm_ = c_.payload if isinstance(c_, VFunc) and c_.kind == "builtin" else (
                f"{c_.obj.__module__}.{c_.obj.__qualname__}" if isinstance(c_, VConc) and isinstance(c_.obj, type) else None)
            tbl_ = self.classes[args[0].cls]["isinstance"]
            if nm_ in tbl_ and isinstance(tbl_[nm_], bool):
                return tbl_[nm_]
        raise Unsupported("isinstance")

    def bi_all(self, args, kw, node, st):
        return self.quant_fold(args[0], True)

    def bi_any(self, args, kw, node, st):
        return self.quant_fold(args[0], False)

    def quant_fold(self, v, is_all):
        conc = self.conc_iter(v)
        if conc is not None:
            ts = [self.truth(x) for x in conc]
            return AND(*ts) if is_all else OR(*ts)
        if isinstance(v, VList):
            if v.elems is None:
                return is_all
            q = z3.Int(uid("q"))
            t = to_z3(self.truth(sel(v.elems, q)))
            rng = z3.And(q >= 0, q < to_z3(v.length))
            return z3.ForAll([q], z3.Implies(rng, t)) if is_all else z3.Exists([q], z3.And(rng, t))
        raise Unsupported("all/any over this iterable")

    def bi_max(self, args, kw, node, st):
        return self.minmax(args, kw, node, st, True)

    def bi_min(self, args, kw, node, st):
        return self.minmax(args, kw, node, st, False)

    def minmax(self, args, kw, node, st, is_max):
        if len(args) >= 2:
            res = args[0]
            for x in args[1:]:
                c = self.compare(ast.Gt() if is_max else ast.Lt(), x, res)
                res = self.merge(c, x, res)
            return res
        v = args[0]
        conc = self.conc_iter(v)
        if conc is not None:
            if not conc:
                self.may_raise(True, "ValueError", node)
                return 0
            return self.minmax(conc, kw, node, st, is_max) if len(conc) > 1 else conc[0]
        if isinstance(v, VList) and v.eshape in (("int",), ("real",)):
            n = to_z3(v.length)
            self.may_raise(n <= 0, "ValueError", node)
            r = z3.Const(uid("max" if is_max else "min"), z3.IntSort() if v.eshape == ("int",) else z3.RealSort())
            q, w = z3.Int(uid("q")), z3.Int(uid("w"))
            from .values import _select
            e = lambda i: _select(v.elems, i)  # (a lambda-defined list is beta-reduced on the spot: same term, no lambda left)
            st.assume(z3.Implies(AND(*self.guard, n > 0), z3.And(
                z3.Exists([w], z3.And(w >= 0, w < n, e(w) == r)),
                z3.ForAll([q], z3.Implies(z3.And(q >= 0, q < n), e(q) <= r if is_max else e(q) >= r)))))
            return r
        raise Unsupported("max/min of this iterable")

    def bi_sum(self, args, kw, node, st):
        conc = self.conc_iter(args[0])
        if conc is None:
            v = args[0]
            if isinstance(v, VList) and v.elems is not None and v.eshape in (("real",), ("int",)) and len(args) == 1:
                # sum of a list of symbolic length: an uninterpreted function of (elements, length) - deterministic, and
                # nothing else is assumed about it here (sidecars add what they need as listed lemmas)
                srt = z3.RealSort() if v.eshape == ("real",) else z3.IntSort()
                return self.ufun("sum." + v.eshape[0], z3.ArraySort(z3.IntSort(), srt), z3.IntSort(), srt)(v.elems, to_z3(v.length))
            raise Unsupported("sum over a symbolic iterable")
        res = args[1] if len(args) > 1 else 0
        for x in conc:
            res = self.binop(ast.Add(), res, x, node)
        return res

    def bi_map(self, args, kw, node, st):
        f, it = args[0], args[1]
        conc = self.conc_iter(it)
        if conc is not None:
            return self.list_literal([self.call_value(f, [x], {}, node, st) for x in conc])
        if isinstance(it, VDictView) and it.which == "values" and it.d.order is not None:
            it = self.bi_list([it], {}, node, st)  # map over dict.values(): the values in insertion order of their keys
        if isinstance(it, VList):
            q = z3.Int(uid("q"))
            self.guard.append(z3.And(q >= 0, q < to_z3(it.length)))
            try:
                elt = self.call_value(f, [sel(it.elems, q)], {}, node, st)
            finally:
                self.guard.pop()
            self.close_mayraise(q)
            es = shape_of(elt)
            return VList(it.length, tmap(lambda leaf: z3.Lambda([q], leaf), elt), es)
        raise Unsupported("map over this iterable")

    def bi_float(self, args, kw, node, st):
        v = args[0]
        if isinstance(v, str) and v.lower() in ("nan", "inf", "-inf"):
            if not self.spec:
                # floats are modelled as reals (A-real): NaN / infinities have no value in the model.  Producing one is therefore
                # an exit of its own kind: on every path the contract admits, `float("nan")` must be unreachable unless the
                # contract lists NotAReal among its raises (obligation safe.no_NotAReal[..], with the solver's counter-model)
                self.may_raise(z3.BoolVal(True), "NotAReal", node)
                return z3.RealVal(0)
            return VConc(float(v))
        if is_int(v) or is_real(v):
            return to_z3(v, "real") if not is_conc(v) else Fraction(v)
        if is_str(v) and not isinstance(v, str):
            # float(s) of a symbolic string: nothing is assumed about which strings parse (ValueError unless the
            # uninterpreted predicate py_float_ok(s)) nor about the value (uninterpreted py_float(s); real arithmetic, A-real)
            z = to_z3(v)
            ok = self.ufun("py_float_ok", z3.StringSort(), z3.BoolSort())
            self.may_raise(NOT(ok(z)), "ValueError", node)
            return self.ufun("py_float", z3.StringSort(), z3.RealSort())(z)
        r = self.conv_dunder("__float__", v, node, st) if len(args) == 1 and not kw else self._NO_CONV
        if r is not self._NO_CONV:
            return r
        raise Unsupported("float() of this value")

    def bi_sorted(self, args, kw, node, st):
        ext = self.externals.get("builtins.sorted")
        if ext is not None:
            # sorted() given by an assumed contract of the sidecar (trusted base, listed like any other external)
            self.used_externals.add("builtins.sorted")
            return ext(self, args, kw, node, st)
        raise Unsupported("sorted")

    def bi_dict(self, args, kw, node, st):
        if not args and not kw:
            return VConc({})  # dict(): an empty dict (a constant: reads only - a store into it is rejected by assign_to)
        if len(args) == 1 and not kw and isinstance(args[0], VZip) and len(args[0].parts) == 2 and not self.spec and not self.binders \
                and all(isinstance(p_, VList) and p_.elems is not None and not isinstance(p_.length, int) for p_ in args[0].parts):
            # dict(zip(K, V)) for two lists of symbolic length: zip yields the pairs (K[q], V[q]) for q < min(len(K), len(V)) and
            # dict() stores them in that order - exactly the dict comprehension {k: v for (k, v) in zip(K, V)} (insertion-ordered;
            # a repeated key keeps its first position and takes the last value).  Evaluated as that comprehension (ev_DictComp)
            # over the list of pairs, which as a value is the list of length min(len(K), len(V)) whose element q is (K[q], V[q]).
            K, V = args[0].parts
            lk, lv = to_z3(K.length), to_z3(V.length)
            pairs = VList(z3.If(lk <= lv, lk, lv), VTuple([K.elems, V.elems]), ("tuple", (K.eshape, V.eshape)))
            kn, vn, itn = "dictzip!k", "dictzip!v", "dictzip!it"
            comp = ast.DictComp(key=ast.Name(id=kn, ctx=ast.Load()), value=ast.Name(id=vn, ctx=ast.Load()),
                                generators=[ast.comprehension(target=ast.Tuple(elts=[ast.Name(id=kn, ctx=ast.Store()), ast.Name(id=vn, ctx=ast.Store())], ctx=ast.Store()),
                                                              iter=ast.Name(id=itn, ctx=ast.Load()), ifs=[], is_async=0)])
            st.env[itn] = pairs
            try:
                return self.ev_DictComp(ast.fix_missing_locations(ast.copy_location(comp, node)), st)
            finally:
                del st.env[itn]
        raise Unsupported("dict()")

    def bi_frozenset(self, args, kw, node, st):
        ext = self.externals.get("builtins.frozenset")
        if ext is not None:
            # frozenset() given by an assumed contract of the sidecar (trusted base, listed like any other external)
            self.used_externals.add("builtins.frozenset")
            return ext(self, args, kw, node, st)
        raise Unsupported("frozenset()")

    def bi_round(self, args, kw, node, st):
        raise Unsupported("round()")

    def bi_dir(self, args, kw, node, st):
        """dir(obj) of a concrete object of the real module (a class, an enum): the list of attribute names Python gives"""
        if len(args) == 1 and not kw and isinstance(args[0], VConc):
            return VConc(list(dir(args[0].obj)))
        raise Unsupported("dir() of this value")


class VDictView:
    def __init__(self, d, which):
        self.d, self.which = d, which


class VEmptySet:
    pass


class VStarArgs:
    """f(*L) for a list L of symbolic length: stands for the len(L) positional arguments L[0], L[1], ... (externals only)"""

    def __init__(self, lst):
        self.lst = lst


class BoxTarget:
    """assignment target standing for the content field of a list object (see boxed_list_method)"""

    def __init__(self, ref, field):
        self.ref, self.field = ref, field


class VJoined:
    """''.join(list of 1-char strings): kept as the list; len() and indexing go to the list"""

    def __init__(self, lst):
        self.lst = lst


def _short(node):
    try:
        return ast.unparse(node).replace("\n", " ")[:40]
    except Exception:
        return "?"


def _inc(n):
    return n + 1 if isinstance(n, int) else n + 1


def _store_multi(arr, ks, val):
    from .values import _store_nested
    return _store_nested(arr, list(ks), val)


def _same(a, b):
    if a is b:
        return True
    if a is None or b is None:
        return False
    try:
        from .values import leaves
        la, lb = leaves(a), leaves(b)
        return len(la) == len(lb) and all(x.eq(y) for x, y in zip(la, lb))
    except Exception:
        return False
