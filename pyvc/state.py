"""Execution state, obligations and outcomes for the pyvc engine."""
from __future__ import annotations

import z3


class Obligation:
    def __init__(self, name, hyps, goal, line=None, kind="safety", note=""):
        self.name, self.hyps, self.goal, self.line, self.kind, self.note = name, list(hyps), goal, line, kind, note

    def to_smt2(self):
        s = z3.Solver()
        for h in self.hyps:
            s.add(h)
        s.add(z3.Not(self.goal))
        return s.to_smt2()


class State:
    def __init__(self):
        self.env = {}
        self.pc = []  # path condition + assumptions (z3 Bool)
        self.heap = {}  # (cls, field) -> lifted value tree (Array(Int, .) leaves)
        self.alloc = z3.IntVal(1)  # allocation frontier: ids >= alloc are fresh
        self.old = None  # entry state (for old(...))
        self.ghost = {}
        self.trace = []  # decisions taken on this path (for reports)
        self.narrowed = frozenset()  # names whose Optional value was narrowed to its payload on this path (`x is None` tests)

    def copy(self):
        s = State()
        s.env = dict(self.env)
        s.pc = list(self.pc)
        s.heap = dict(self.heap)
        s.alloc = self.alloc
        s.old = self.old
        s.ghost = dict(self.ghost)
        s.trace = list(self.trace)
        s.narrowed = self.narrowed
        return s

    def assume(self, f):
        if isinstance(f, bool):
            if not f:
                self.pc.append(z3.BoolVal(False))
            return
        self.pc.append(f)


class Outcome:
    """kind: 'fall' | 'return' | 'break' | 'continue' | 'raise'"""

    def __init__(self, kind, st, value=None, exc=None, line=None):
        self.kind, self.st, self.value, self.exc, self.line = kind, st, value, exc, line
